"""L3 call graph, function closure, SCCs and bottom-up *stream-effect* summaries.

Three reusable pieces (all purely syntactic / abstract -- nothing is executed):

CallGraph(repo)
    * universe: every function/method of the package plus nested ``def``s;
    * callee resolution: local def / imported name / ``Class(...)`` constructor /
      ``self.m`` through the MRO (plus overrides in subclasses) / ``x.m`` where the
      type of ``x`` is known (parameter annotation, ``x = Class(...)``,
      ``self.x = Class(...)`` anywhere in the class) / class-table dispatch
      ``TABLE[k][0](...)`` / call of a parameter (resolved from the call sites
      of the enclosing function); otherwise *may-call*: every definer of the
      method name in the import closure of the caller's module;
    * implicit edges: properties, ``__getitem__``/``__setitem__``/``__len__``/
      ``__iter__``/``__next__``/``__contains__``/``__eq__``/``__hash__``/
      ``__str__``/``__repr__`` (typed when the receiver type is known, may-call otherwise);
    * ``closure(roots)``, ``sccs(funcs)``.

Bounds(cg)
    small interval evaluator for integer expressions (constants, ``calcsize``,
    ``len``, ``x % k``, ``x & k``, ``abs``, ``min/max``, getters returning a bounded value).

StreamAnalysis(cg)
    abstract interpretation of a function body over *stream positions*: for every
    stream expression (something ``.read/.seek/.tell`` is applied to) the net
    position change [lo, hi] relative to the entry point and the number of
    *anchored checked bytes* (bytes read by a read that raises at EOF -- a
    ``struct`` unpack of ``S.read(n)`` with ``n == calcsize(fmt) > 0`` -- issued at a
    position that is not before the entry position).  Summaries are computed
    bottom-up over the call graph (least fixpoint inside recursive SCCs).  This is
    the "consumes >= 1 checked byte on all normal paths" summary of DESIGN 4/C35.
"""
from __future__ import annotations

import ast
import builtins
import struct

import networkx as nx

from .consts import Folder, Unknown, Ref, is_unknown
from .model import AnalysisError, Cls, Func, Module, dotted, parent

EXTERNAL = "<external>"
INF = float("inf")

_BUILTINS = set(dir(builtins))
_EXTERNAL_TYPE_NAMES = {
    "BinaryIO", "IO", "TextIO", "bytes", "bytearray", "str", "int", "float", "bool", "list", "dict", "set", "tuple",
    "object", "Any", "Iterator", "List", "Tuple", "Dict", "Set", "Element", "memoryview",
}
DUNDER_IMPLICIT = ("__getitem__", "__setitem__", "__len__", "__iter__", "__next__", "__contains__",
                   "__eq__", "__hash__", "__str__", "__repr__", "__format__", "__call__", "__bool__")


def _is_type_checking_if(n):
    return isinstance(n, ast.If) and "TYPE_CHECKING" in ast.unparse(n.test)


_OWN_CACHE: dict = {}


def own_nodes(fnode):
    """all nodes of a function body (or of any statement), not descending into nested def/class
    (lambdas and comprehensions are part of the function).  Cached per node object."""
    k = id(fnode)
    hit = _OWN_CACHE.get(k)
    if hit is not None and hit[0] is fnode:
        return hit[1]
    lst = list(_own_nodes_gen(fnode))
    _OWN_CACHE[k] = (fnode, lst)
    return lst


def _own_nodes_gen(fnode):
    stack = list(reversed(list(ast.iter_child_nodes(fnode))))
    while stack:
        n = stack.pop()
        if isinstance(n, (ast.FunctionDef, ast.AsyncFunctionDef, ast.ClassDef)):
            yield n  # the def statement itself, but not its body
            continue
        yield n
        stack.extend(reversed(list(ast.iter_child_nodes(n))))


def is_property(fnode):
    for d in fnode.decorator_list:
        s = ast.unparse(d)
        if s == "property" or s.endswith(".getter") or s == "cached_property" or s.endswith(".cached_property"):
            return True
    return False


def is_static(fnode):
    return any(ast.unparse(d) in ("staticmethod",) for d in fnode.decorator_list)


def is_classmethod(fnode):
    return any(ast.unparse(d) in ("classmethod",) for d in fnode.decorator_list)


class Edge:
    __slots__ = ("node", "targets", "kind")

    def __init__(self, node, targets, kind):
        self.node = node
        self.targets = targets
        self.kind = kind

    def __repr__(self):
        return "Edge(%s -> %s [%s])" % (ast.unparse(self.node)[:40], [t.qualname for t in self.targets], self.kind)


class CallGraph:
    def __init__(self, repo):
        self.repo = repo
        self.folder = Folder(repo)
        self.funcs: dict[tuple, Func] = {}
        self.nested: dict[int, dict[str, Func]] = {}
        self.outer: dict[int, Func] = {}
        self.by_name: dict[str, list[Func]] = {}
        self.props: dict[str, list[Func]] = {}
        self.classes: list[Cls] = []
        self._subs: dict[int, list[Cls]] = {}
        self._imports: dict[str, set] = {}
        self._closure_cache: dict[str, set] = {}
        self._edges: dict[int, list[Edge]] = {}
        self._unknown: dict[int, list] = {}
        self._attr_types: dict[tuple, object] = {}
        self._local_types: dict[tuple, object] = {}
        self._callsites: dict[str, list] | None = None
        self._assign_index: dict[int, dict] = {}
        self._resolve_cache: dict[tuple, tuple] = {}
        self._binds_cache: dict[int, tuple] = {}
        self._type_cache: dict[tuple, tuple] = {}
        self._func_of_node: dict[int, Func] = {}
        for m in repo.modules.values():
            for c in m.classes.values():
                self.classes.append(c)
            for f in list(m.functions.values()):
                self._add(f)
        # property getters shadowed by their setters (model.Cls.methods keeps the last def of a name)
        self._getters: dict[tuple, Func] = {}
        for c in self.classes:
            seen_idx = {}
            for n in c.node.body:
                if isinstance(n, (ast.FunctionDef, ast.AsyncFunctionDef)):
                    if is_property(n):
                        cur = c.methods.get(n.name)
                        if cur is not None and cur.node is n:
                            self._getters[(id(c), n.name)] = cur
                        else:
                            seen_idx[n.name] = seen_idx.get(n.name, 0) + 1
                            g = Func(c.module, "%s.%s" % (c.name, n.name), n, c)
                            self.funcs[(g.file, g.qualname + "#getter")] = g
                            self._func_of_node[id(n)] = g
                            self.by_name.setdefault(n.name, []).append(g)
                            self.props.setdefault(n.name, []).append(g)
                            self._getters[(id(c), n.name)] = g
        for c in self.classes:
            for b in c.mro()[1:]:
                self._subs.setdefault(id(b), []).append(c)

    # ------------------------------------------------------------------ universe
    def _add(self, f: Func):
        self.funcs[(f.file, f.qualname)] = f
        self._func_of_node[id(f.node)] = f
        if f.cls is not None and id(f.node) not in self.outer:
            self.by_name.setdefault(f.name, []).append(f)
            if is_property(f.node):
                self.props.setdefault(f.name, []).append(f)

    def nested_of(self, f: Func):
        """nested defs of f (registered lazily: scanning every function of the package up front is the
        single most expensive step of building the graph)"""
        k = id(f.node)
        nd = self.nested.get(k)
        if nd is None:
            nd = {}
            self.nested[k] = nd
            for n in own_nodes(f.node):
                if isinstance(n, (ast.FunctionDef, ast.AsyncFunctionDef)):
                    g = Func(f.module, f.qualname + "." + n.name, n, f.cls)
                    nd[n.name] = g
                    self.outer[id(n)] = f
                    self._add(g)
        return nd

    def func(self, relpath, qualname) -> Func:
        f = self.funcs.get((relpath, qualname))
        if f is None and "." in qualname:
            # a nested def: register the enclosing functions first
            parts = qualname.split(".")
            for i in range(1, len(parts)):
                o = self.funcs.get((relpath, ".".join(parts[:i])))
                if o is not None:
                    self.nested_of(o)
            f = self.funcs.get((relpath, qualname))
        if f is None:
            raise AnalysisError("anchor vanished: %s:%s" % (relpath, qualname))
        return f

    def func_of(self, node):
        """the Func whose body (not counting nested defs) contains `node`"""
        n = node
        while n is not None:
            if isinstance(n, (ast.FunctionDef, ast.AsyncFunctionDef)) and id(n) in self._func_of_node:
                return self._func_of_node[id(n)]
            n = parent(n)
        return None

    def is_method(self, f: Func):
        """f takes `self` (a method that is not static; nested defs do not)"""
        return f.cls is not None and id(f.node) not in self.outer and not is_static(f.node)

    def self_name(self, f: Func):
        """name that denotes the instance inside f (also inside nested defs of a method)"""
        g = f
        while id(g.node) in self.outer:
            g = self.outer[id(g.node)]
        if g.cls is not None and not is_static(g.node) and not is_classmethod(g.node):
            ps = g.params()
            if ps:
                return ps[0]
        return None

    def getter(self, c: Cls, name):
        """the @property getter `name` of class c (through the MRO), or None"""
        for k in c.mro():
            g = self._getters.get((id(k), name))
            if g is not None:
                return g
            if name in k.methods or name in k.attrs:
                return None
        return None

    def subclasses(self, c: Cls):
        return self._subs.get(id(c), [])

    # ------------------------------------------------------------------ imports
    def imports_of(self, relpath):
        if relpath in self._imports:
            return self._imports[relpath]
        m = self.repo.modules[relpath]
        out = set()

        def add(dotted_name):
            mm = self.repo.by_dotted(dotted_name)
            if mm is not None:
                out.add(mm.relpath)

        def visit(n):
            for ch in ast.iter_child_nodes(n):
                if _is_type_checking_if(ch):
                    for s in ch.orelse:
                        visit(s)
                    continue
                if isinstance(ch, ast.Import):
                    for a in ch.names:
                        parts = a.name.split(".")
                        for i in range(1, len(parts) + 1):
                            add(".".join(parts[:i]))
                elif isinstance(ch, ast.ImportFrom):
                    base = ch.module or ""
                    if ch.level:
                        pkg = m._pkg().split(".")
                        if ch.level > 1:
                            pkg = pkg[: -(ch.level - 1)]
                        base = ".".join(pkg + ([ch.module] if ch.module else []))
                    add(base)
                    for a in ch.names:
                        add(base + "." + a.name)
                else:
                    visit(ch)

        visit(m.tree)
        out.discard(relpath)
        self._imports[relpath] = out
        return out

    def import_closure(self, relpath):
        if relpath in self._closure_cache:
            return self._closure_cache[relpath]
        seen = {relpath}
        stack = [relpath]
        while stack:
            r = stack.pop()
            for x in self.imports_of(r):
                if x not in seen:
                    seen.add(x)
                    stack.append(x)
        self._closure_cache[relpath] = seen
        return seen

    # ------------------------------------------------------------------ types
    def ann_type(self, ann, module: Module):
        if ann is None:
            return None
        if isinstance(ann, ast.Constant) and isinstance(ann.value, str):
            try:
                ann = ast.parse(ann.value, mode="eval").body
            except SyntaxError:
                return None
        if isinstance(ann, ast.Name):
            c = module.resolve_class(ann.id)
            if c is not None:
                return c
            if ann.id in _EXTERNAL_TYPE_NAMES or ann.id in _BUILTINS:
                return EXTERNAL
            imp = module.imports.get(ann.id)
            if imp and self.repo.by_dotted(imp[0]) is None:
                return EXTERNAL
            return None
        if isinstance(ann, ast.Attribute):
            c = module.resolve_class(ann.attr)
            if c is not None:
                return c
            root = ann
            while isinstance(root, ast.Attribute):
                root = root.value
            if isinstance(root, ast.Name):
                r = module.resolve_name(root.id)
                if r is None:
                    return EXTERNAL
                if r[0] == "module" and r[1] is not None:
                    c = r[1].resolve_class(ann.attr)
                    if c is not None:
                        return c
            return None
        if isinstance(ann, ast.Subscript):
            head = ast.unparse(ann.value).split(".")[-1]
            if head in ("Union", "Optional"):
                elts = ann.slice.elts if isinstance(ann.slice, ast.Tuple) else [ann.slice]
                ts = []
                for e in elts:
                    if isinstance(e, ast.Constant) and e.value is None:
                        continue
                    ts.append(self.ann_type(e, module))
                ts = [t for t in ts]
                if len(ts) == 1:
                    return ts[0]
                if ts and all(t is EXTERNAL for t in ts):
                    return EXTERNAL
                return None
            return EXTERNAL  # list[...], dict[...], Iterator[...]
        if isinstance(ann, ast.BinOp) and isinstance(ann.op, ast.BitOr):
            ts = [self.ann_type(x, module) for x in (ann.left, ann.right)
                  if not (isinstance(x, ast.Constant) and x.value is None)]
            if len(ts) == 1:
                return ts[0]
            return None
        return None

    def _params_of(self, f: Func):
        a = f.node.args
        return a.posonlyargs + a.args + a.kwonlyargs

    def _assignments_to_name(self, f: Func, name):
        """rhs expressions assigned to local `name` in f (None for non-simple bindings)"""
        k = id(f.node)
        idx = self._assign_index.get(k)
        if idx is None:
            idx = {}
            names = set()
            for n in own_nodes(f.node):
                if isinstance(n, ast.Name) and isinstance(n.ctx, ast.Store):
                    names.add(n.id)
                elif isinstance(n, ast.ExceptHandler) and n.name:
                    names.add(n.name)
            for nm in names:
                idx[nm] = self._assignments_to_name_scan(f, nm)
            self._assign_index[k] = idx
        return idx.get(name, [])

    def _assignments_to_name_scan(self, f: Func, name):
        out = []
        for n in own_nodes(f.node):
            if isinstance(n, ast.Assign):
                for t in n.targets:
                    if isinstance(t, ast.Name) and t.id == name:
                        out.append(n.value)
                    elif isinstance(t, (ast.Tuple, ast.List)) and any(isinstance(x, ast.Name) and x.id == name for x in ast.walk(t)):
                        out.append(None)
            elif isinstance(n, ast.AnnAssign) and isinstance(n.target, ast.Name) and n.target.id == name:
                out.append(n.value)
            elif isinstance(n, (ast.AugAssign,)) and isinstance(n.target, ast.Name) and n.target.id == name:
                out.append(None)
            elif isinstance(n, (ast.For, ast.AsyncFor, ast.comprehension)):
                if isinstance(n.target, ast.Name) and n.target.id == name:
                    out.append(("elem", n.iter))
                elif any(isinstance(x, ast.Name) and x.id == name for x in ast.walk(n.target)):
                    out.append(None)
            elif isinstance(n, ast.withitem) and n.optional_vars is not None:
                if any(isinstance(x, ast.Name) and x.id == name for x in ast.walk(n.optional_vars)):
                    out.append(None)
            elif isinstance(n, ast.NamedExpr) and n.target.id == name:
                out.append(n.value)
            elif isinstance(n, ast.ExceptHandler) and n.name == name:
                out.append(None)
        return out

    def type_of(self, e, f: Func, depth=0):
        """-> Cls | EXTERNAL | None (unknown)"""
        if depth == 0:
            ck = (id(e), id(f.node))
            hit = self._type_cache.get(ck)
            if hit is not None and hit[0] is e:
                return hit[1]
            t = self._type_of(e, f, 0)
            self._type_cache[ck] = (e, t)
            return t
        return self._type_of(e, f, depth)

    def _type_of(self, e, f: Func, depth=0):
        if depth > 6:
            return None
        if isinstance(e, ast.Name):
            dd = self.dominating_def(e, f)
            if dd is not None:
                t = self.type_of(dd, f, depth + 1)
                if t is not None:
                    return t
            key = (id(f.node), e.id)
            if key in self._local_types:
                return self._local_types[key]
            self._local_types[key] = None
            t = self._type_of_name(e.id, f, depth)
            self._local_types[key] = t
            return t
        if isinstance(e, ast.Attribute):
            tb = self.type_of(e.value, f, depth + 1)
            if isinstance(tb, Cls):
                return self.attr_type(tb, e.attr, depth + 1)
            if tb is EXTERNAL:
                return EXTERNAL
            # module attribute?
            if isinstance(e.value, ast.Name):
                r = f.module.resolve_name(e.value.id)
                if r is None and e.value.id in f.module.imports:
                    return EXTERNAL
            return None
        if isinstance(e, ast.Call):
            r = self.resolve_callable(e.func, f)
            if r is not None:
                kind, obj = r
                if kind == "class":
                    return obj
                if kind == "func":
                    return self.ann_type(obj.node.returns, obj.module)
                if kind == "external":
                    return EXTERNAL
            if isinstance(e.func, ast.Attribute):
                tb = self.type_of(e.func.value, f, depth + 1)
                if isinstance(tb, Cls):
                    m = tb.lookup(e.func.attr)
                    if m is not None:
                        return self.ann_type(m.node.returns, m.module)
                if tb is EXTERNAL:
                    return EXTERNAL
            return None
        if isinstance(e, (ast.Constant, ast.List, ast.Tuple, ast.Dict, ast.Set, ast.ListComp, ast.DictComp, ast.SetComp,
                          ast.JoinedStr, ast.BinOp, ast.Compare, ast.BoolOp)):
            return EXTERNAL if not isinstance(e, ast.BoolOp) else None
        if isinstance(e, ast.Subscript):
            return None
        if isinstance(e, ast.IfExp):
            a, b = self.type_of(e.body, f, depth + 1), self.type_of(e.orelse, f, depth + 1)
            return a if a is b else None
        return None

    _BINDS: dict = {}

    @staticmethod
    def _binds(stmt, name):
        """does `stmt` (including nested statements, excluding nested defs) bind `name`?"""
        hit = CallGraph._BINDS.get(id(stmt))
        if hit is None or hit[0] is not stmt:
            names = set()
            for n in [stmt] + list(own_nodes(stmt)):
                if isinstance(n, ast.Name) and isinstance(n.ctx, (ast.Store, ast.Del)):
                    names.add(n.id)
                elif isinstance(n, ast.ExceptHandler) and n.name:
                    names.add(n.name)
            hit = (stmt, names)
            CallGraph._BINDS[id(stmt)] = hit
        return name in hit[1]

    def dominating_def(self, name_node, f: Func):
        """rhs of the simple assignment `name = rhs` that precedes the use in the same or an
        enclosing statement list with no other binding of the name in between (structurally
        dominating, hence the reaching definition), else None."""
        name = name_node.id
        n = name_node
        while n is not None and n is not f.node:
            p = parent(n)
            if p is None:
                return None
            if isinstance(n, ast.stmt):
                for fld in ("body", "orelse", "finalbody"):
                    lst = getattr(p, fld, None)
                    if isinstance(lst, list) and any(x is n for x in lst):
                        i = [k for k, x in enumerate(lst) if x is n][0]
                        for j in range(i - 1, -1, -1):
                            s = lst[j]
                            if isinstance(s, ast.Assign) and len(s.targets) == 1 and isinstance(s.targets[0], ast.Name) \
                                    and s.targets[0].id == name:
                                return s.value
                            if self._binds(s, name):
                                return None
                        break
                # a loop re-binds its target / body on the back edge
                if isinstance(p, (ast.For, ast.AsyncFor, ast.While)) and self._binds(p, name):
                    # definitions inside the loop body that precede the use were handled above;
                    # anything else may flow around the back edge
                    return None
                if isinstance(p, (ast.For, ast.AsyncFor)) and any(isinstance(x, ast.Name) and x.id == name for x in ast.walk(p.target)):
                    return None
            if isinstance(p, (ast.ListComp, ast.SetComp, ast.DictComp, ast.GeneratorExp, ast.Lambda)):
                # comprehension targets / lambda parameters shadow
                if isinstance(p, ast.Lambda):
                    if any(a.arg == name for a in p.args.args):
                        return None
                else:
                    for g in p.generators:
                        if any(isinstance(x, ast.Name) and x.id == name for x in ast.walk(g.target)):
                            return None
            n = p
        return None

    def _type_of_name(self, name, f: Func, depth):
        sn = self.self_name(f)
        if sn is not None and name == sn:
            g = f
            while id(g.node) in self.outer:
                g = self.outer[id(g.node)]
            return g.cls
        types = []
        is_param = False
        for p in self._params_of(f):
            if p.arg == name:
                is_param = True
                types.append(self.ann_type(p.annotation, f.module))
        if is_param and f.cls is not None and any(ast.unparse(d).endswith(".setter") for d in f.node.decorator_list):
            # parameter of a property setter: what do the stores `obj.<prop> = rhs` assign?
            types = [t for t in types if t is not None]
            for g, st in self.attr_stores(f.name):
                tgt = st.targets[0]
                rt = self.type_of(tgt.value, g, depth + 1)
                if isinstance(rt, Cls) and (rt is f.cls or f.cls in rt.mro()):
                    types.append(self.type_of(st.value, g, depth + 1))
        assigns = self._assignments_to_name(f, name)
        for rhs in assigns:
            if rhs is None:
                types.append(None)
            elif isinstance(rhs, tuple):
                types.append(self.elem_type_of(rhs[1], f, depth + 1))
            elif isinstance(rhs, ast.Constant) and rhs.value is None:
                continue
            else:
                types.append(self.type_of(rhs, f, depth + 1))
        if not types:
            if id(f.node) in self.outer:
                return self.type_of(ast.Name(id=name, ctx=ast.Load()), self.outer[id(f.node)], depth + 1)
            r = f.module.resolve_name(name)
            if r is None:
                if name in f.module.imports or name in _BUILTINS:
                    return EXTERNAL
            elif r[0] == "const":
                return self._const_type(r[2], r[1])
            return None
        first = types[0]
        if all(t is first for t in types):
            return first
        # `x = None` defaults and re-assignments of the same class are tolerated
        real = [t for t in types if t is not None]
        if is_param and real and all(t is real[0] for t in real) and len(real) == len(types):
            return real[0]
        return None

    def _const_type(self, expr, module):
        if isinstance(expr, (ast.Constant, ast.List, ast.Tuple, ast.Dict, ast.Set, ast.ListComp, ast.DictComp, ast.SetComp,
                             ast.JoinedStr, ast.BinOp)):
            return EXTERNAL
        if isinstance(expr, ast.Call):
            fn = expr.func
            if isinstance(fn, ast.Name):
                c = module.resolve_class(fn.id)
                if c is not None:
                    return c
                if fn.id in _BUILTINS or (fn.id in module.imports and self.repo.by_dotted(module.imports[fn.id][0]) is None):
                    return EXTERNAL
            elif isinstance(fn, ast.Attribute) and isinstance(fn.value, ast.Name):
                r = module.resolve_name(fn.value.id)
                if r is None and fn.value.id in module.imports:
                    return EXTERNAL
        return None

    def elem_type_of(self, e, f: Func, depth=0):
        """type of the elements of a list-like expression, when every contribution agrees"""
        if depth > 6:
            return None
        if isinstance(e, (ast.ListComp, ast.SetComp, ast.GeneratorExp)):
            return self.type_of(e.elt, f, depth + 1)
        if isinstance(e, (ast.List, ast.Tuple, ast.Set)):
            ts = [self.type_of(x, f, depth + 1) for x in e.elts]
            if ts and all(t is ts[0] for t in ts):
                return ts[0]
            return None
        if isinstance(e, ast.Call):
            if isinstance(e.func, ast.Name) and e.func.id in ("sorted", "list", "reversed", "tuple", "iter", "set") and e.args:
                return self.elem_type_of(e.args[0], f, depth + 1)
            return None
        if isinstance(e, ast.BinOp) and isinstance(e.op, ast.Add):
            a, b = self.elem_type_of(e.left, f, depth + 1), self.elem_type_of(e.right, f, depth + 1)
            return a if a is b else None
        if isinstance(e, ast.Name):
            dd = self.dominating_def(e, f)
            contrib = []
            if dd is not None and not (isinstance(dd, (ast.List,)) and not dd.elts):
                return self.elem_type_of(dd, f, depth + 1)
            for rhs in self._assignments_to_name(f, e.id):
                if rhs is None or isinstance(rhs, tuple):
                    return None
                if isinstance(rhs, ast.List) and not rhs.elts:
                    continue
                contrib.append(self.elem_type_of(rhs, f, depth + 1))
            for n in own_nodes(f.node):
                if isinstance(n, ast.Call) and isinstance(n.func, ast.Attribute) and n.func.attr == "append" \
                        and isinstance(n.func.value, ast.Name) and n.func.value.id == e.id and n.args:
                    contrib.append(self.type_of(n.args[0], f, depth + 1))
            if contrib and all(t is contrib[0] for t in contrib):
                return contrib[0]
            return None
        if isinstance(e, ast.Attribute):
            tb = self.type_of(e.value, f, depth + 1)
            if isinstance(tb, Cls):
                return self.attr_elem_type(tb, e.attr, depth + 1)
            return None
        return None

    def attr_elem_type(self, c: Cls, attr, depth=0):
        key = (id(c), attr, "elem")
        if key in self._attr_types:
            return self._attr_types[key]
        self._attr_types[key] = None
        contrib = []
        bad = False
        for k in c.mro() + self.subclasses(c):
            for m in k.methods.values():
                sn = self.self_name(m)
                if sn is None:
                    continue
                for n in own_nodes(m.node):
                    if isinstance(n, ast.Assign):
                        for t in n.targets:
                            if isinstance(t, ast.Attribute) and t.attr == attr and isinstance(t.value, ast.Name) and t.value.id == sn:
                                if isinstance(n.value, ast.List) and not n.value.elts:
                                    continue
                                if isinstance(n.value, ast.Constant) and n.value.value is None:
                                    continue
                                contrib.append(self.elem_type_of(n.value, m, depth + 1))
                            elif isinstance(t, (ast.Tuple, ast.List)) and any(
                                    isinstance(x, ast.Attribute) and x.attr == attr and isinstance(x.value, ast.Name) and x.value.id == sn for x in t.elts):
                                bad = True
                    elif isinstance(n, ast.Call) and isinstance(n.func, ast.Attribute) and n.func.attr in ("append", "insert", "extend", "add"):
                        r = n.func.value
                        if isinstance(r, ast.Attribute) and r.attr == attr and isinstance(r.value, ast.Name) and r.value.id == sn and n.args:
                            if n.func.attr == "extend":
                                contrib.append(self.elem_type_of(n.args[0], m, depth + 1))
                            else:
                                contrib.append(self.type_of(n.args[-1], m, depth + 1))
        t = None
        if contrib and not bad and all(x is contrib[0] for x in contrib):
            t = contrib[0]
        self._attr_types[key] = t
        return t

    def attr_stores(self, attr):
        """every simple store `<expr>.attr = rhs` in the universe -> [(Func, Assign)]"""
        if not hasattr(self, "_attr_store_index"):
            idx = {}
            for g in list(self.funcs.values()):
                for n in own_nodes(g.node):
                    if isinstance(n, ast.Assign):
                        for tg in n.targets:
                            if isinstance(tg, ast.Attribute):
                                # a one-target view of the (possibly chained) assignment
                                view = n if len(n.targets) == 1 else ast.Assign(targets=[tg], value=n.value)
                                idx.setdefault(tg.attr, []).append((g, view))
            self._attr_store_index = idx
        return self._attr_store_index.get(attr, [])

    def attr_type(self, c: Cls, attr, depth=0):
        key = (id(c), attr)
        if key in self._attr_types:
            return self._attr_types[key]
        self._attr_types[key] = None
        types = []
        for k in c.mro() + self.subclasses(c):
            for m in k.methods.values():
                sn = self.self_name(m)
                if sn is None:
                    continue
                for n in own_nodes(m.node):
                    if isinstance(n, ast.Assign):
                        for t in n.targets:
                            if isinstance(t, ast.Attribute) and t.attr == attr and isinstance(t.value, ast.Name) and t.value.id == sn:
                                if isinstance(n.value, ast.Constant) and n.value.value is None:
                                    continue  # `self.x = None` placeholder
                                types.append(self.type_of(n.value, m, depth + 1))
                            elif isinstance(t, (ast.Tuple, ast.List)):
                                for x in t.elts:
                                    if isinstance(x, ast.Attribute) and x.attr == attr and isinstance(x.value, ast.Name) and x.value.id == sn:
                                        types.append(EXTERNAL if isinstance(n.value, ast.Call) and self._is_unpack_call(n.value) else None)
                    elif isinstance(n, ast.AnnAssign) and isinstance(n.target, ast.Attribute) and n.target.attr == attr:
                        types.append(self.ann_type(n.annotation, m.module))
                    elif isinstance(n, ast.AugAssign) and isinstance(n.target, ast.Attribute) and n.target.attr == attr:
                        types.append(None)
        pm = self.getter(c, attr)
        if pm is not None:
            if pm.node.returns is not None:
                types.append(self.ann_type(pm.node.returns, pm.module))
            else:
                rets = [n for n in own_nodes(pm.node) if isinstance(n, ast.Return) and n.value is not None]
                for r in rets:
                    types.append(self.type_of(r.value, pm, depth + 1))
                if not rets:
                    types.append(None)
        ca = c.lookup_attr(attr)
        if ca is not None and not (isinstance(ca, ast.Constant) and ca.value is None):
            types.append(self._const_type(ca, c.module))
        for k in c.mro():
            for m in k.methods.values():
                for n in own_nodes(m.node):
                    if isinstance(n, ast.Assign):
                        for t in n.targets:
                            if isinstance(t, ast.Attribute) and t.attr == attr and isinstance(t.value, ast.Name) and t.value.id == k.name:
                                types.append(self.type_of(n.value, m, depth + 1))
        t = None
        if types:
            real = [x for x in types if x is not None]
            # tolerate `self.x = None` initialisers next to one concrete class
            nones_ok = True
            if real and all(x is real[0] for x in real) and (len(real) == len(types) or nones_ok and isinstance(real[0], Cls) and self._only_none_literals(c, attr)):
                t = real[0]
        self._attr_types[key] = t
        return t

    def _only_none_literals(self, c, attr):
        for k in c.mro() + self.subclasses(c):
            for m in k.methods.values():
                sn = self.self_name(m)
                for n in own_nodes(m.node):
                    if isinstance(n, ast.Assign):
                        for t in n.targets:
                            if isinstance(t, ast.Attribute) and t.attr == attr and isinstance(t.value, ast.Name) and t.value.id == sn:
                                v = n.value
                                if isinstance(v, ast.Constant) and v.value is None:
                                    continue
                                if self.type_of(v, m, 3) is None:
                                    return False
        return True

    @staticmethod
    def _is_unpack_call(call):
        fn = call.func
        return (isinstance(fn, ast.Name) and fn.id == "unpack") or (isinstance(fn, ast.Attribute) and fn.attr in ("unpack", "unpack_from"))

    # ------------------------------------------------------------------ resolution
    def resolve_callable(self, fn, f: Func):
        """resolve the *callee expression* of a call when it names something statically:
        -> ('func', Func) | ('class', Cls) | ('external', name) | None"""
        if isinstance(fn, ast.Name):
            name = fn.id
            # nested def in this or an enclosing function
            g = f
            while True:
                nd = self.nested_of(g)
                if name in nd:
                    return ("func", nd[name])
                if id(g.node) in self.outer:
                    g = self.outer[id(g.node)]
                else:
                    break
            if self._is_local(name, f):
                return None
            r = f.module.resolve_name(name)
            if r is not None:
                if r[0] == "func":
                    return ("func", r[1])
                if r[0] == "class":
                    return ("class", r[1])
                if r[0] == "const":
                    return None
                return None
            if name in f.module.imports or name in _BUILTINS:
                return ("external", name)
            return None
        if isinstance(fn, ast.Attribute):
            d = dotted(fn)
            if d is not None:
                root = d.split(".")[0]
                if not self._is_local(root, f) and root != self.self_name(f):
                    r = f.module.resolve_name(root)
                    parts = d.split(".")[1:]
                    cur = r
                    if cur is None and (root in f.module.imports or root in _BUILTINS):
                        return ("external", d)
                    for i, p in enumerate(parts):
                        if cur is None:
                            break
                        if cur[0] == "module":
                            if cur[1] is None:
                                return ("external", d)
                            nxt = cur[1].resolve_name(p)
                            if nxt is None:
                                sub = self.repo.by_dotted(cur[1].dotted + "." + p)
                                nxt = ("module", sub) if sub is not None else None
                            if nxt is None and p in cur[1].imports:
                                return ("external", d)
                            cur = nxt
                        elif cur[0] == "class":
                            m = cur[1].lookup(p)
                            if m is not None and i == len(parts) - 1:
                                return ("func", m)
                            cur = None
                        else:
                            cur = None
                    if cur is not None and cur[0] in ("func", "class"):
                        return (cur[0], cur[1])
        return None

    def _is_local(self, name, f: Func):
        g = f
        while True:
            if any(p.arg == name for p in self._params_of(g)) or (g.node.args.vararg and g.node.args.vararg.arg == name) \
                    or (g.node.args.kwarg and g.node.args.kwarg.arg == name):
                return True
            if self._assignments_to_name(g, name):
                return True
            if id(g.node) in self.outer:
                g = self.outer[id(g.node)]
            else:
                return False

    def _methods_named(self, name, f: Func, cands=None):
        mods = self.import_closure(f.file)
        return [m for m in (cands if cands is not None else self.by_name.get(name, [])) if m.file in mods]

    def _typed_method(self, c: Cls, name):
        out = []
        m = c.lookup(name)
        if m is not None:
            out.append(m)
        for s in self.subclasses(c):
            if name in s.methods and s.methods[name] not in out:
                out.append(s.methods[name])
        return out

    def _ctor(self, c: Cls):
        out = []
        for n in ("__init__", "__new__"):
            m = c.lookup(n)
            if m is not None:
                out.append(m)
        return out

    def callsites_of(self, name):
        """all Call nodes in the universe whose callee is spelled `...name(...)`"""
        if self._callsites is None:
            self._callsites = {}
            # one pass per module (cheaper than materialising the node list of every function of the package)
            for m in self.repo.modules.values():
                stack = [(m.tree, None)]
                while stack:
                    node, cur = stack.pop()
                    for ch in ast.iter_child_nodes(node):
                        c2 = cur
                        if isinstance(ch, (ast.FunctionDef, ast.AsyncFunctionDef)):
                            g = self._func_of_node.get(id(ch))
                            if g is None and cur is not None:
                                g = self.nested_of(cur).get(ch.name)
                            c2 = g if g is not None else cur
                        elif isinstance(ch, ast.Call) and cur is not None:
                            fn = ch.func
                            nm = fn.id if isinstance(fn, ast.Name) else (fn.attr if isinstance(fn, ast.Attribute) else None)
                            if nm:
                                self._callsites.setdefault(nm, []).append((cur, ch))
                        stack.append((ch, c2))
        return self._callsites.get(name, [])

    def _callable_candidates(self, arg, g: Func, depth):
        """what `arg` (an argument expression in g) may denote as a callable -> (targets, complete)"""
        r = self.resolve_callable(arg, g)
        if r is not None:
            if r[0] == "class":
                return self._ctor(r[1]), True
            if r[0] == "func":
                return [r[1]], True
            return [], True
        if isinstance(arg, ast.Lambda):
            return [], False    # a lambda's body is not followed here: the callee is unknown
        if isinstance(arg, ast.Attribute):
            t = self.type_of(arg.value, g)
            if isinstance(t, Cls):
                ms = self._typed_method(t, arg.attr)
                if ms:
                    return ms, True          # a bound method
            return [], False
        if isinstance(arg, ast.Name) and depth < 4:
            if any(p.arg == arg.id for p in self._params_of(g)) and not self._assignments_to_name(g, arg.id):
                pc = self._param_callable_targets(arg.id, g, depth + 1)   # handed through: ask g's callers
                if pc is not None:
                    return pc
                return [], False
            # the loop variable of `for a, b, T in TABLE` with TABLE a literal (or a local bound to one)
            for n in own_nodes(g.node):
                if isinstance(n, (ast.For, ast.comprehension)) and isinstance(n.target, (ast.Tuple, ast.List, ast.Name)):
                    elts = n.target.elts if isinstance(n.target, (ast.Tuple, ast.List)) else [n.target]
                    pos = [i for i, t in enumerate(elts) if isinstance(t, ast.Name) and t.id == arg.id]
                    if not pos or len(self._assignments_to_name(g, arg.id)) != 1:
                        continue
                    table = n.iter
                    if isinstance(table, ast.Name):
                        rhs = [x for x in self._assignments_to_name(g, table.id)]
                        table = rhs[0] if len(rhs) == 1 and isinstance(rhs[0], ast.AST) else None
                    if not isinstance(table, (ast.Tuple, ast.List)):
                        return [], False
                    out, complete = [], True
                    for row in table.elts:
                        cell = row
                        if isinstance(n.target, (ast.Tuple, ast.List)):
                            if not (isinstance(row, (ast.Tuple, ast.List)) and len(row.elts) == len(elts)):
                                return [], False
                            cell = row.elts[pos[0]]
                        ts, c = self._callable_candidates(cell, g, depth + 1)
                        out += [t for t in ts if t not in out]
                        complete = complete and c
                    return out, complete
        return [], False

    def _attr_callable_targets(self, cls: Cls, attr):
        """`self.attr(...)` where attr is not a method: if every store to it is `self.attr = <parameter>` (or a resolvable
        callable) -> (targets, complete) like _param_callable_targets; None if the attribute is never stored (not ours)"""
        key = (id(cls), attr, "callable")
        if key in self._attr_types:
            return self._attr_types[key]
        self._attr_types[key] = ([], False)
        stores = []
        for k in cls.mro() + self.subclasses(cls):
            for m in k.methods.values():
                sn = self.self_name(m)
                if sn is None:
                    continue
                for n in own_nodes(m.node):
                    if isinstance(n, ast.Assign):
                        for t in n.targets:
                            if isinstance(t, ast.Attribute) and t.attr == attr and isinstance(t.value, ast.Name) and t.value.id == sn:
                                stores.append((m, n.value))
                    elif isinstance(n, (ast.AnnAssign, ast.AugAssign)) and isinstance(n.target, ast.Attribute) and n.target.attr == attr:
                        stores.append((m, getattr(n, "value", None)))
        if not stores:
            self._attr_types[key] = None
            return None
        targets, complete = [], True
        for m, v in stores:
            if v is None:
                complete = False
                continue
            if isinstance(v, ast.Constant) and v.value is None:
                continue
            ts, c = self._callable_candidates(v, m, 0)
            targets += [t for t in ts if t not in targets]
            complete = complete and c
        self._attr_types[key] = (targets, complete)
        return self._attr_types[key]

    def _param_callable_targets(self, pname, f: Func, depth=0):
        """`pname` is a parameter of f that is *called*: look at what the call sites of f pass."""
        ps = [p.arg for p in self._params_of(f)]
        if pname not in ps:
            return None
        idx = ps.index(pname)
        targets, complete = [], True
        is_ctor = f.name == "__init__" and f.cls is not None and id(f.node) not in self.outer
        sites = self.callsites_of(f.cls.name if is_ctor else f.name)
        if not sites:
            return None
        for g, call in sites:
            off = 0
            if self.is_method(f) and (isinstance(call.func, ast.Attribute) or is_ctor):
                off = 1  # self is implicit
            arg = None
            if idx - off < len(call.args) and idx - off >= 0:
                arg = call.args[idx - off]
            for kw in call.keywords:
                if kw.arg == pname:
                    arg = kw.value
            if arg is None:
                d = f.node.args.defaults
                complete = False
                continue
            ts, c = self._callable_candidates(arg, g, depth)
            targets += [t for t in ts if t not in targets]
            complete = complete and c
        return (targets, complete)

    def _table_targets(self, fn, f: Func, depth=0):
        """`TABLE[k][0](...)`, `TABLE.get(k)(...)`, `self.TABLE[k](...)`, or a local bound to one of these:
        every class / function / method named in the constant TABLE (module constant or class attribute)"""
        if depth > 3:
            return None
        root = fn
        while True:
            if isinstance(root, ast.Subscript):
                root = root.value
            elif isinstance(root, ast.Call) and isinstance(root.func, ast.Attribute) and root.func.attr in ("get", "__getitem__"):
                root = root.func.value
            else:
                break
        expr, mod, cls = None, None, None
        if isinstance(root, ast.Name):
            if self._is_local(root.id, f):
                rhs = [x for x in self._assignments_to_name(f, root.id)]
                if len(rhs) == 1 and isinstance(rhs[0], ast.AST) and not isinstance(rhs[0], ast.Name):
                    if root is fn:
                        return self._table_targets(rhs[0], f, depth + 1)
                    if isinstance(rhs[0], ast.Attribute):
                        # table = self.TABLE ; table[k](...)
                        return self._table_targets(ast.Subscript(value=rhs[0], slice=ast.Constant(0), ctx=ast.Load()), f, depth + 1)
                    if isinstance(rhs[0], (ast.Dict, ast.List, ast.Tuple)) and not any(p.arg == root.id for p in self._params_of(f)):
                        expr, mod = rhs[0], f.module    # a local literal table of functions / classes
                    else:
                        return None
                else:
                    return None
            else:
                r = f.module.resolve_name(root.id)
                if not r or r[0] != "const":
                    return None
                expr, mod = r[2], r[1]
        elif isinstance(root, ast.Attribute) and isinstance(root.value, ast.Name):
            sn = self.self_name(f)
            if sn is not None and root.value.id == sn:
                cls = self.type_of(root.value, f)
            else:
                r = f.module.resolve_name(root.value.id) if not self._is_local(root.value.id, f) else None
                cls = r[1] if r and r[0] == "class" else None
            if not isinstance(cls, Cls):
                return None
            expr = cls.lookup_attr(root.attr)
            mod = cls.module
            if expr is None:
                return None
        else:
            return None
        if not isinstance(expr, (ast.Dict, ast.List, ast.Tuple, ast.Set)):
            return None
        # every entry that could be called must be understood: a lambda / partial / external callable in the table
        # would be a callee whose effect is simply missing from the join
        values = list(expr.values) if isinstance(expr, ast.Dict) else list(expr.elts)
        for v in values:
            for n in ast.walk(v):
                if isinstance(n, ast.Lambda):
                    return None
                if isinstance(n, ast.Call) and ast.unparse(n.func) not in ("methodcaller", "operator.methodcaller"):
                    return None
                if isinstance(n, ast.Name) and isinstance(n.ctx, ast.Load):
                    rr = mod.resolve_name(n.id)
                    if rr is None and not (cls is not None and n.id in cls.methods):
                        if n.id in _BUILTINS or n.id in mod.imports:
                            return None   # a builtin / foreign callable (or value) we know nothing about
        out = []
        for n in ast.walk(expr):
            if isinstance(n, ast.Name):
                rr = mod.resolve_name(n.id)
                if rr and rr[0] == "class":
                    for m in self._ctor(rr[1]):
                        if m not in out:
                            out.append(m)
                elif rr and rr[0] == "func" and rr[1] not in out:
                    out.append(rr[1])
                elif cls is not None and n.id in cls.methods and cls.methods[n.id] not in out:
                    out.append(cls.methods[n.id])   # a class-level table of the class's own functions
            elif isinstance(n, ast.Call) and ast.unparse(n.func) in ("methodcaller", "operator.methodcaller") and n.args \
                    and isinstance(n.args[0], ast.Constant) and isinstance(n.args[0].value, str):
                for m in self._methods_named(n.args[0].value, f):     # methodcaller("name")(obj) == obj.name()
                    if m not in out:
                        out.append(m)
        return out or None

    def resolve_call(self, call: ast.Call, f: Func):
        """-> (targets: list[Func], kind: str).  kind 'external' = not repository code;
        'unknown' = could not be resolved at all (a call of a computed value)."""
        ck = (id(call), id(f.node))
        hit = self._resolve_cache.get(ck)
        if hit is not None and hit[0] is call:
            return hit[1]
        r = self._resolve_call(call, f)
        self._resolve_cache[ck] = (call, r)
        return r

    def _resolve_call(self, call: ast.Call, f: Func):
        fn = call.func
        r = self.resolve_callable(fn, f)
        if r is not None:
            if r[0] == "func":
                return [r[1]], "direct"
            if r[0] == "class":
                return self._ctor(r[1]), "ctor"
            if r[0] == "external":
                # next(x) / len(x) / str(x) ... -> dunder of the argument
                if isinstance(fn, ast.Name) and fn.id in ("next", "len", "str", "repr", "iter", "hash", "bool") and call.args:
                    dn = {"next": "__next__", "len": "__len__", "str": "__str__", "repr": "__repr__", "iter": "__iter__",
                          "hash": "__hash__", "bool": "__bool__"}[fn.id]
                    if fn.id in ("str", "repr", "hash", "bool") and not isinstance(self.type_of(call.args[0], f), Cls):
                        return [], "external"
                    ts = self.dunder_targets(call.args[0], dn, f)
                    if fn.id == "str":
                        ts = ts + [t for t in self.dunder_targets(call.args[0], "__repr__", f) if t not in ts]
                    return ts, "implicit"
                return [], "external"
        if isinstance(fn, ast.Name):
            if self._is_local(fn.id, f):
                pc = self._param_callable_targets(fn.id, f)
                if pc is not None and pc[1]:
                    return pc[0], "hof"
                # a local bound to a lambda / nested def
                rhs = self._assignments_to_name(f, fn.id)
                if rhs and all(isinstance(x, ast.Lambda) for x in rhs if not isinstance(x, tuple)) and not any(isinstance(x, tuple) for x in rhs):
                    return [], "lambda"
                tt = self._table_targets(fn, f)
                if tt:
                    return tt, "table"
                return (pc[0] if pc else []), "unknown"
            return [], "unknown"
        if isinstance(fn, ast.Attribute):
            name = fn.attr
            recv = fn.value
            if isinstance(recv, ast.Call) and isinstance(recv.func, ast.Name) and recv.func.id == "super":
                g = f
                while id(g.node) in self.outer:
                    g = self.outer[id(g.node)]
                if g.cls is not None:
                    for b in g.cls.mro()[1:]:
                        if name in b.methods:
                            return [b.methods[name]], "super"
                return [], "external"
            t = self.type_of(recv, f)
            if isinstance(t, Cls):
                ms = self._typed_method(t, name)
                if ms:
                    return ms, "typed"
                # an instance attribute that holds a callable (`self._read = read_fn` in the constructor):
                # what do the constructor's call sites pass?  Never "external": the callee is repository code we may not see.
                held = self._attr_callable_targets(t, name)
                if held is not None:
                    ts_, complete = held
                    if complete and ts_:
                        return ts_, "hofb"
                    return ts_, "unknown"
                at = self.attr_type(t, name)
                if at is EXTERNAL:
                    return [], "external"
                cands = self._methods_named(name, f)
                if not cands:
                    return [], "external"
                return cands, "byname"
            if t is EXTERNAL:
                return [], "external"
            cands = self._methods_named(name, f)
            if not cands:
                return [], "external"
            return cands, "byname"
        if isinstance(fn, ast.Subscript):
            tt = self._table_targets(fn, f)
            if tt is not None:
                return tt, "table"
            return [], "unknown"
        if isinstance(fn, ast.Lambda):
            return [], "lambda"
        if isinstance(fn, ast.Call):
            tt = self._table_targets(fn, f)
            if tt:
                return tt, "table"
            return [], "unknown"
        return [], "unknown"

    def dunder_targets(self, recv, dn, f: Func):
        t = self.type_of(recv, f)
        if isinstance(t, Cls):
            return self._typed_method(t, dn)
        if t is EXTERNAL:
            return []
        return self._methods_named(dn, f)

    def property_targets(self, attr_node: ast.Attribute, f: Func):
        cands = self.props.get(attr_node.attr)
        if not cands:
            return []
        t = self.type_of(attr_node.value, f)
        if isinstance(t, Cls):
            out = []
            g = self.getter(t, attr_node.attr)
            if g is not None:
                out.append(g)
            for sc in self.subclasses(t):
                g2 = self._getters.get((id(sc), attr_node.attr))
                if g2 is not None and g2 not in out:
                    out.append(g2)
            return out
        if t is EXTERNAL:
            return []
        return self._methods_named(attr_node.attr, f, cands)

    # ------------------------------------------------------------------ edges
    def edges(self, f: Func):
        k = id(f.node)
        if k in self._edges:
            return self._edges[k]
        out, unknown = [], []
        self._edges[k] = out
        self._unknown[k] = unknown
        has_fmt = False
        has_cmp = False
        for n in own_nodes(f.node):
            if isinstance(n, ast.Call):
                ts, kind = self.resolve_call(n, f)
                if kind == "unknown":
                    unknown.append(n)
                if ts:
                    out.append(Edge(n, ts, kind))
                fnn = n.func
                if isinstance(fnn, ast.Attribute) and fnn.attr == "format":
                    has_fmt = True
                    for a in list(n.args) + [kw.value for kw in n.keywords]:
                        self._fmt_edges(a, f, out)
                if isinstance(fnn, ast.Attribute) and fnn.attr in ("add", "discard", "remove", "index", "count", "setdefault", "get", "pop") \
                        and any(isinstance(self.type_of(a, f), Cls) for a in n.args):
                    has_cmp = True
            elif isinstance(n, ast.Attribute) and isinstance(n.ctx, ast.Load):
                p = parent(n)
                if isinstance(p, ast.Call) and p.func is n:
                    # a call through a property value is rare; the property itself is still evaluated
                    pass
                ts = self.property_targets(n, f)
                if ts:
                    out.append(Edge(n, ts, "property"))
            elif isinstance(n, ast.Subscript):
                dn = "__getitem__" if isinstance(n.ctx, ast.Load) else ("__setitem__" if isinstance(n.ctx, ast.Store) else None)
                if dn:
                    ts = self.dunder_targets(n.value, dn, f)
                    if ts:
                        out.append(Edge(n, ts, "implicit"))
                if isinstance(self.type_of(n.slice, f), Cls):
                    has_cmp = True
            elif isinstance(n, (ast.For, ast.AsyncFor, ast.comprehension)):
                ts = self.dunder_targets(n.iter, "__iter__", f) + self.dunder_targets(n.iter, "__next__", f)
                if ts:
                    out.append(Edge(n.iter, ts, "implicit"))
            elif isinstance(n, ast.Compare):
                if any(isinstance(self.type_of(x, f), Cls) for x in [n.left] + list(n.comparators)):
                    has_cmp = True
                for op, c in zip(n.ops, n.comparators):
                    if isinstance(op, (ast.In, ast.NotIn)):
                        ts = self.dunder_targets(c, "__contains__", f)
                        if ts:
                            out.append(Edge(n, ts, "implicit"))
            elif isinstance(n, ast.JoinedStr):
                for v in n.values:
                    if isinstance(v, ast.FormattedValue):
                        self._fmt_edges(v.value, f, out)
            elif isinstance(n, ast.BinOp) and isinstance(n.op, ast.Mod) and isinstance(n.left, (ast.Constant, ast.JoinedStr)) \
                    and isinstance(getattr(n.left, "value", None), str):
                args = n.right.elts if isinstance(n.right, ast.Tuple) else [n.right]
                for a in args:
                    self._fmt_edges(a, f, out)
            elif isinstance(n, (ast.If, ast.While)) or isinstance(n, ast.IfExp):
                t = n.test
                if isinstance(t, (ast.Name, ast.Attribute)):
                    ts = self.dunder_targets(t, "__bool__", f) + self.dunder_targets(t, "__len__", f)
                    if ts:
                        out.append(Edge(t, ts, "implicit"))
        if has_cmp:
            ts = self._methods_named("__eq__", f) + self._methods_named("__hash__", f)
            if ts:
                out.append(Edge(f.node, ts, "implicit-eqhash"))
        return out

    def _fmt_edges(self, a, f, out):
        if isinstance(a, ast.Constant):
            return
        ts = []
        # typed receivers only: formatting a value whose static type is unknown is assumed
        # not to enter repository code (documented limitation; ints/strs dominate)
        if not isinstance(self.type_of(a, f), Cls):
            return
        for dn in ("__format__", "__str__", "__repr__"):
            for t in self.dunder_targets(a, dn, f):
                if t not in ts:
                    ts.append(t)
        if ts:
            out.append(Edge(a, ts, "implicit-format"))

    def unknown_calls(self, f: Func):
        self.edges(f)
        return self._unknown[id(f.node)]

    def callees(self, f: Func):
        seen, out = set(), []
        for e in self.edges(f):
            for t in e.targets:
                if id(t.node) not in seen:
                    seen.add(id(t.node))
                    out.append(t)
        return out

    def edge_at(self, f: Func, node):
        for e in self.edges(f):
            if e.node is node:
                return e
        return None

    # ------------------------------------------------------------------ graph queries
    def closure(self, roots):
        seen = {}
        stack = list(roots)
        for r in roots:
            seen[id(r.node)] = r
        while stack:
            f = stack.pop()
            # a nested def is only reachable through a call edge; defining it is not calling it
            for t in self.callees(f):
                if id(t.node) not in seen:
                    seen[id(t.node)] = t
                    stack.append(t)
        return list(seen.values())

    def graph(self, funcs):
        g = nx.DiGraph()
        ids = {id(f.node): f for f in funcs}
        for f in funcs:
            g.add_node(id(f.node))
            for t in self.callees(f):
                if id(t.node) in ids:
                    g.add_edge(id(f.node), id(t.node))
        return g, ids

    def sccs(self, funcs):
        """recursive SCCs (size > 1 or self-loop) as lists of Func, plus the condensation order
        (callees first) of *all* funcs."""
        g, ids = self.graph(funcs)
        rec = []
        for comp in nx.strongly_connected_components(g):
            comp = list(comp)
            if len(comp) > 1 or g.has_edge(comp[0], comp[0]):
                rec.append(sorted((ids[i] for i in comp), key=lambda f: (f.file, f.qualname)))
        rec.sort(key=lambda c: (c[0].file, c[0].qualname))
        return rec

    def bottom_up(self, funcs):
        """list of SCCs (each a list of Func) such that callees come before callers"""
        g, ids = self.graph(funcs)
        cond = nx.condensation(g)
        order = list(reversed(list(nx.topological_sort(cond))))
        return [[ids[i] for i in cond.nodes[c]["members"]] for c in order]

    def path(self, roots, target):
        """one call path root -> ... -> target (for evidence), list of qualnames"""
        prev = {}
        dq = list(roots)
        for r in roots:
            prev[id(r.node)] = None
        i = 0
        while i < len(dq):
            f = dq[i]
            i += 1
            if f.node is target.node:
                out = []
                cur = f
                while cur is not None:
                    out.append(cur.qualname)
                    cur = prev[id(cur.node)]
                return list(reversed(out))
            for t in self.callees(f):
                if id(t.node) not in prev:
                    prev[id(t.node)] = f
                    dq.append(t)
        return None


# =============================================================================
# Integer bounds
# =============================================================================
def iv(lo, hi=None):
    return (lo, lo if hi is None else hi)


TOP = (-INF, INF)
ZERO = (0, 0)


def iv_add(a, b):
    return (a[0] + b[0], a[1] + b[1])


def iv_neg(a):
    return (-a[1], -a[0])


def iv_sub(a, b):
    return iv_add(a, iv_neg(b))


def iv_join(a, b):
    return (min(a[0], b[0]), max(a[1], b[1]))


def iv_mul(a, b):
    prods = []
    for x in a:
        for y in b:
            if (x == 0 and abs(y) == INF) or (y == 0 and abs(x) == INF):
                prods.append(0)
            else:
                prods.append(x * y)
    return (min(prods), max(prods))


def iv_str(a):
    def s(x):
        return "-inf" if x == -INF else ("+inf" if x == INF else str(int(x)))
    return "[%s,%s]" % (s(a[0]), s(a[1]))


_FMT_RANGE = {"B": (0, 255), "b": (-128, 127), "H": (0, 65535), "h": (-32768, 32767), "I": (0, 2**32 - 1), "L": (0, 2**32 - 1),
              "i": (-2**31, 2**31 - 1), "l": (-2**31, 2**31 - 1), "Q": (0, 2**64 - 1), "q": (-2**63, 2**63 - 1), "?": (0, 1)}


def fmt_slots(fmt):
    """value range of each slot produced by struct.unpack(fmt) (None for non-integer slots)"""
    out = []
    f = fmt.lstrip("<>=!@")
    num = ""
    for ch in f:
        if ch.isdigit():
            num += ch
            continue
        n = int(num) if num else 1
        num = ""
        if ch in "sp":
            out.append(None)
        elif ch == "x":
            pass
        else:
            out += [_FMT_RANGE.get(ch)] * n
    return out


class Bounds:
    """interval evaluation of integer expressions inside a function (syntactic, conservative:
    anything not understood is [-inf, +inf])."""

    def __init__(self, cg: CallGraph):
        self.cg = cg
        self.folder = cg.folder
        self._attr = {}
        self._ret = {}
        self._locals_cache = {}
        self._fold_cache = {}
        self._setattr_busy = False
        self._attr_busy = set()
        self._attr_rec_hit = False
        self.loose_attrs = set()   # (id(cls), attr): bounds are an over-approximation (guards not understood)
        self.loose_hits = []       # appended whenever such bounds are handed out

    # ---- constants -----------------------------------------------------------
    def _local_names(self, f: Func):
        k = id(f.node)
        if k not in self._locals_cache:
            names = set(p.arg for p in self.cg._params_of(f))
            if f.node.args.vararg:
                names.add(f.node.args.vararg.arg)
            if f.node.args.kwarg:
                names.add(f.node.args.kwarg.arg)
            for n in own_nodes(f.node):
                if isinstance(n, ast.Name) and isinstance(n.ctx, (ast.Store, ast.Del)):
                    names.add(n.id)
                elif isinstance(n, ast.ExceptHandler) and n.name:
                    names.add(n.name)
            self._locals_cache[k] = names
        return self._locals_cache[k]

    def fold(self, e, f: Func):
        """constant value of `e` inside f, or Unknown.  Locals fold only through a
        structurally dominating single definition; `self.K` folds to a class constant
        that no method ever stores to."""
        ck = (id(e), id(f.node))
        if ck in self._fold_cache:
            return self._fold_cache[ck][1]
        v = self._fold(e, f)
        self._fold_cache[ck] = (e, v)  # keep e alive so that id(e) stays unique
        return v

    def _fold(self, e, f: Func):
        L = {}
        for n in ast.walk(e):
            if isinstance(n, ast.Name) and n.id in self._local_names(f) and n.id not in L:
                dd = self.cg.dominating_def(n, f) if parent(n) is not None else None
                v = Unknown("local %s" % n.id)
                if dd is not None and not any(isinstance(x, ast.Name) and x.id == n.id for x in ast.walk(dd)):
                    v = self.fold(dd, f)
                L[n.id] = v
        sn = self.cg.self_name(f)
        if sn is not None:
            e2 = self._subst_self_consts(e, f, sn)
            if e2 is None:
                return Unknown("self attribute")
            e = e2
        try:
            return self.folder.fold(e, f.module, L)
        except Exception as ex:  # folding must never break the analysis
            return Unknown("fold: %s" % ex)

    def _subst_self_consts(self, e, f, sn):
        """replace `self.K` by the class-level constant expression (when never stored to)"""
        cls = self.cg.type_of(ast.Name(id=sn, ctx=ast.Load()), f)
        if not isinstance(cls, Cls):
            return e
        found = [n for n in ast.walk(e) if isinstance(n, ast.Attribute) and isinstance(n.value, ast.Name) and n.value.id == sn]
        if not found:
            return e

        class T(ast.NodeTransformer):
            ok = True

            def visit_Attribute(s2, n):
                if isinstance(n.value, ast.Name) and n.value.id == sn:
                    ca = cls.lookup_attr(n.attr)
                    if ca is not None and not self._stored(cls, n.attr):
                        return ast.Attribute(value=ast.Name(id=cls.name, ctx=ast.Load()), attr=n.attr, ctx=ast.Load())
                    s2.ok = False
                    return n
                return s2.generic_visit(n)

        t = T()
        e2 = t.visit(ast.parse(ast.unparse(e), mode="eval").body)  # fresh copy without parent links
        if not t.ok:
            return None
        if cls.module is not f.module and f.module.resolve_class(cls.name) is not cls:
            return None
        return e2

    def _stored(self, cls: Cls, attr):
        return bool(self._stores(cls, attr))

    def _stores(self, cls: Cls, attr):
        """[(method Func, stmt, target node, value-or-None, slot index-or-None)] for stores to self.attr"""
        key = (id(cls), attr, "stores")
        if key in self._attr:
            return self._attr[key]
        out = []
        for k in cls.mro() + self.cg.subclasses(cls):
            for m in k.methods.values():
                sn = self.cg.self_name(m)
                for g in [m] + list(self.cg.nested_of(m).values()):
                    for n in own_nodes(g.node):
                        tgts = []
                        if isinstance(n, ast.Assign):
                            for t in n.targets:
                                if isinstance(t, (ast.Tuple, ast.List)):
                                    for i, x in enumerate(t.elts):
                                        tgts.append((x, n.value, i))
                                else:
                                    tgts.append((t, n.value, None))
                        elif isinstance(n, ast.AugAssign):
                            tgts.append((n.target, None, None))
                        elif isinstance(n, ast.AnnAssign) and n.value is not None:
                            tgts.append((n.target, n.value, None))
                        elif isinstance(n, (ast.For, ast.AsyncFor)):
                            for x in ast.walk(n.target):
                                tgts.append((x, None, None))
                        elif isinstance(n, ast.Call) and isinstance(n.func, ast.Name) and n.func.id == "setattr" and len(n.args) >= 2:
                            a0, a1 = n.args[0], n.args[1]
                            if isinstance(a0, ast.Name) and a0.id == sn and not (isinstance(a1, ast.Constant) and a1.value != attr):
                                names = self._setattr_names(a1, g)
                                if names is None or attr in names:
                                    out.append((m, n, n, None, None))
                        for t, v, i in tgts:
                            if isinstance(t, ast.Attribute) and t.attr == attr and isinstance(t.value, ast.Name) and t.value.id == sn:
                                out.append((m, n, t, v, i))
        if not self._setattr_busy:
            self._attr[key] = out
        return out

    def _setattr_names(self, name_expr, g: Func):
        """possible attribute names of `setattr(self, <name_expr>, v)` when the name is the loop variable of a
        `for name, ... in zip(CONST, ...)` / `for name in CONST` loop over a constant table; None = unknown"""
        if not isinstance(name_expr, ast.Name):
            return None
        if self._setattr_busy:
            return set()   # optimistic inside the recursion; validated by the outer call below
        n = name_expr
        while n is not None and n is not g.node:
            n = parent(n)
            if isinstance(n, (ast.For, ast.comprehension)) and any(isinstance(x, ast.Name) and x.id == name_expr.id for x in ast.walk(n.target)):
                it = n.iter
                src = None
                tg = n.target
                if isinstance(it, ast.Call) and isinstance(it.func, ast.Name) and it.func.id == "zip" and isinstance(tg, (ast.Tuple, ast.List)):
                    for i, x in enumerate(tg.elts):
                        if isinstance(x, ast.Name) and x.id == name_expr.id and i < len(it.args):
                            src = it.args[i]
                elif isinstance(tg, ast.Name):
                    src = it
                if src is None:
                    return None
                self._setattr_busy = True
                try:
                    v = self.fold(src, g)
                finally:
                    self._setattr_busy = False
                names = None
                if isinstance(v, (list, tuple)) and all(isinstance(x, str) for x in v):
                    names = set(v)
                elif isinstance(v, dict) and all(isinstance(x, str) for x in v):
                    names = set(v)
                if names is None:
                    return None
                # the table must not name an attribute it was computed from
                used = {x.attr for x in ast.walk(src) if isinstance(x, ast.Attribute)}
                if names & used:
                    return None
                return names
        return None

    # ---- intervals -------------------------------------------------------------
    def eval(self, e, f: Func, depth=0, subst=None):
        """interval of integer expression e evaluated inside f.  `subst` = (self_name, Cls) when e
        comes from a method body evaluated for a receiver of class Cls."""
        if depth > 5 or e is None:
            return TOP
        if subst is None:
            v = self.fold(e, f)
            if isinstance(v, bool):
                return iv(int(v))
            if isinstance(v, int):
                return iv(v)
        if isinstance(e, ast.Constant):
            if isinstance(e.value, bool):
                return iv(int(e.value))
            if isinstance(e.value, int):
                return iv(e.value)
            return TOP
        ev = lambda x: self.eval(x, f, depth + 1, subst)
        if isinstance(e, ast.BinOp):
            if isinstance(e.op, ast.Add):
                return iv_add(ev(e.left), ev(e.right))
            if isinstance(e.op, ast.Sub):
                return iv_sub(ev(e.left), ev(e.right))
            if isinstance(e.op, ast.Mult):
                return iv_mul(ev(e.left), ev(e.right))
            if isinstance(e.op, ast.Mod):
                r = ev(e.right)
                if r[0] == r[1] and r[0] > 0:
                    return (0, r[0] - 1)
                return TOP
            if isinstance(e.op, ast.BitAnd):
                l, r = ev(e.left), ev(e.right)
                best = TOP
                for x in (l, r):
                    if x[0] >= 0 and x[1] < INF:
                        best = (0, min(best[1], x[1]))
                return best
            if isinstance(e.op, ast.FloorDiv):
                l, r = ev(e.left), ev(e.right)
                if r[0] == r[1] and r[0] > 0:
                    k = r[0]
                    return (l[0] // k if l[0] != -INF else -INF, l[1] // k if l[1] != INF else INF)
                return TOP
            if isinstance(e.op, ast.RShift):
                l, r = ev(e.left), ev(e.right)
                if r[0] == r[1] and r[0] >= 0:
                    k = int(r[0])
                    return (int(l[0]) >> k if l[0] != -INF else -INF, int(l[1]) >> k if l[1] != INF else INF)
                return TOP
            if isinstance(e.op, ast.LShift):
                l, r = ev(e.left), ev(e.right)
                if r[0] == r[1] and r[0] >= 0:
                    return iv_mul(l, iv(2 ** int(r[0])))
                return TOP
            if isinstance(e.op, ast.BitOr):
                l, r = ev(e.left), ev(e.right)
                if l[0] >= 0 and r[0] >= 0:
                    return (max(l[0], r[0]), INF if INF in (l[1], r[1]) else (1 << (int(max(l[1], r[1])).bit_length())) - 1)
                return TOP
            return TOP
        if isinstance(e, ast.UnaryOp):
            if isinstance(e.op, ast.USub):
                return iv_neg(ev(e.operand))
            if isinstance(e.op, ast.UAdd):
                return ev(e.operand)
            return TOP
        if isinstance(e, ast.IfExp):
            return iv_join(ev(e.body), ev(e.orelse))
        if isinstance(e, ast.Call):
            fn = e.func
            if isinstance(fn, ast.Name) and fn.id == "len":
                return (0, INF)
            if isinstance(fn, ast.Name) and fn.id == "abs" and e.args:
                a = ev(e.args[0])
                if a[0] >= 0:
                    return a
                return (0, max(abs(a[0]), abs(a[1])))
            if isinstance(fn, ast.Name) and fn.id in ("min", "max") and len(e.args) >= 2 and not e.keywords:
                vs = [ev(a) for a in e.args]
                if fn.id == "min":
                    return (min(v[0] for v in vs), min(v[1] for v in vs))
                return (max(v[0] for v in vs), max(v[1] for v in vs))
            if isinstance(fn, ast.Name) and fn.id == "int" and len(e.args) == 1:
                return TOP
            if isinstance(fn, ast.Name) and fn.id == "ord":
                return (0, 0x10FFFF)
            # struct unpack slot: unpack(fmt, ...)[k] handled in Subscript
            return self._call_bounds(e, f, depth, subst)
        if isinstance(e, ast.Subscript):
            # unpack('<I', ...)[0]
            v = e.value
            if isinstance(v, ast.Call) and CallGraph._is_unpack_call(v):
                fmt = self.unpack_fmt(v, f)
                k = self.fold(e.slice, f)
                if fmt is not None and isinstance(k, int):
                    sl = fmt_slots(fmt)
                    if 0 <= k < len(sl) and sl[k] is not None:
                        return sl[k]
            if isinstance(v, ast.Name) and subst is None and parent(v) is not None:
                dd = self.cg.dominating_def(v, f)
                if isinstance(dd, (ast.ListComp, ast.GeneratorExp)):
                    return self.eval(dd.elt, f, depth + 1)
                if isinstance(dd, (ast.List, ast.Tuple)) and dd.elts:
                    out = None
                    for x in dd.elts:
                        bb = self.eval(x, f, depth + 1)
                        out = bb if out is None else iv_join(out, bb)
                    return out
            return TOP
        if isinstance(e, ast.Attribute):
            return self._attr_bounds_expr(e, f, depth, subst)
        if isinstance(e, ast.Name):
            if subst is not None:
                return TOP
            if parent(e) is not None and e.id in self._local_names(f):
                dd = self.cg.dominating_def(e, f)
                if dd is not None and not any(isinstance(x, ast.Name) and x.id == e.id for x in ast.walk(dd)):
                    return self.eval(dd, f, depth + 1)
                tb = self._tuple_def_bounds(e, f)
                if tb != TOP:
                    return tb
                return self._accumulator_bounds(e.id, f, depth)
            return TOP
        return TOP

    def _accumulator_bounds(self, name, f, depth):
        """a local that is only ever bound by `name = <const>` and `name += <non-negative>` (flow-insensitive)"""
        if any(p.arg == name for p in self.cg._params_of(f)):
            return TOP
        lo = None
        for n in own_nodes(f.node):
            if isinstance(n, ast.Assign):
                for t in n.targets:
                    if isinstance(t, ast.Name) and t.id == name:
                        v = self.fold(n.value, f)
                        if isinstance(v, int) and not isinstance(v, bool):
                            lo = v if lo is None else min(lo, v)
                        else:
                            return TOP
                    elif any(isinstance(x, ast.Name) and x.id == name and isinstance(x.ctx, ast.Store) for x in ast.walk(t)):
                        return TOP
            elif isinstance(n, ast.AugAssign) and isinstance(n.target, ast.Name) and n.target.id == name:
                if not isinstance(n.op, ast.Add) or any(isinstance(x, ast.Name) and x.id == name for x in ast.walk(n.value)):
                    return TOP
                if self.eval(n.value, f, depth + 1)[0] < 0:
                    return TOP
            elif isinstance(n, ast.Name) and n.id == name and isinstance(n.ctx, (ast.Store, ast.Del)):
                p = parent(n)
                if not isinstance(p, (ast.Assign, ast.AugAssign)):
                    return TOP
            elif isinstance(n, ast.ExceptHandler) and n.name == name:
                return TOP
        if lo is None:
            return TOP
        return (lo, INF)

    def _tuple_def_bounds(self, name_node, f):
        """`a, b = unpack(fmt, ...)` dominating the use: bounds of the slot"""
        name = name_node.id
        n = name_node
        while n is not None and n is not f.node:
            p = parent(n)
            if p is None:
                return TOP
            if isinstance(n, ast.stmt):
                for fld in ("body", "orelse", "finalbody"):
                    lst = getattr(p, fld, None)
                    if isinstance(lst, list) and any(x is n for x in lst):
                        i = [k for k, x in enumerate(lst) if x is n][0]
                        for j in range(i - 1, -1, -1):
                            s = lst[j]
                            if isinstance(s, ast.Assign) and len(s.targets) == 1 and isinstance(s.targets[0], (ast.Tuple, ast.List)):
                                names = [x.id if isinstance(x, ast.Name) else None for x in s.targets[0].elts]
                                if name in names and isinstance(s.value, ast.Call) and isinstance(s.value.func, ast.Name) \
                                        and s.value.func.id == "divmod" and len(s.value.args) == 2 and len(names) == 2:
                                    k = self.eval(s.value.args[1], f)
                                    x = self.eval(s.value.args[0], f)
                                    if k[0] == k[1] and k[0] > 0:
                                        if names.index(name) == 1:
                                            return (0, k[0] - 1)
                                        return (x[0] // k[0] if x[0] != -INF else -INF, x[1] // k[0] if x[1] != INF else INF)
                                    return TOP
                                if name in names and isinstance(s.value, ast.Call) and CallGraph._is_unpack_call(s.value):
                                    fmt = self.unpack_fmt(s.value, f)
                                    if fmt is not None:
                                        sl = fmt_slots(fmt)
                                        k = names.index(name)
                                        if len(sl) == len(names) and sl[k] is not None:
                                            return sl[k]
                                    return TOP
                            if CallGraph._binds(s, name):
                                return TOP
                        break
                if isinstance(p, (ast.For, ast.AsyncFor, ast.While)) and CallGraph._binds(p, name):
                    return TOP
            n = p
        return TOP

    def unpack_fmt(self, call, f: Func):
        """format string of a struct-style unpack call, with byte order made explicit; None if not literal"""
        fn = call.func
        if isinstance(fn, ast.Name) and fn.id in ("unpack", "unpack_from") and call.args and fn.id not in self._local_names(f):
            imp = f.module.imports.get(fn.id)
            if imp and imp[0] == "struct":
                v = self.fold(call.args[0], f)
                return v if isinstance(v, str) else None
            return None
        if isinstance(fn, ast.Name):
            b = self.bound_unpack(fn, f)
            return self.struct_fmt(b.value, f) if b is not None else None
        if isinstance(fn, ast.Attribute) and fn.attr in ("unpack", "unpack_from"):
            recv = fn.value
            if isinstance(recv, ast.Name) and recv.id == "struct" and f.module.imports.get("struct") == ("struct", None) and call.args:
                v = self.fold(call.args[0], f)
                return v if isinstance(v, str) else None
            return self.struct_fmt(recv, f)
        return None

    def bound_unpack(self, name_node, f: Func):
        """a local name bound to `<struct object>.unpack` (bound-method alias) -> the Attribute node, else None"""
        if not isinstance(name_node, ast.Name) or name_node.id not in self._local_names(f):
            return None
        dd = self.cg.dominating_def(name_node, f) if parent(name_node) is not None else None
        if dd is None:
            rhs = self.cg._assignments_to_name(f, name_node.id)
            dd = rhs[0] if len(rhs) == 1 and isinstance(rhs[0], ast.AST) else None
        if isinstance(dd, ast.Attribute) and dd.attr == "unpack":
            return dd
        return None

    def struct_fmt(self, e, f: Func, depth=0):
        """e evaluates to a struct.Struct object -> its format (byte order explicit), else None.
        Understood: PACKER[fmt] (DalvikPacker idiom), struct.Struct(fmt), a local / self attribute / class
        constant / module constant holding one of these."""
        if depth > 4:
            return None
        if isinstance(e, ast.Subscript):
            if self.is_packer(e.value, f):
                v = self.fold(e.slice, f)
                if isinstance(v, str):
                    return "<" + v
            return None
        if isinstance(e, ast.Call):
            r = self.cg.resolve_callable(e.func, f)
            if r and r[0] == "external" and r[1] in ("struct.Struct", "Struct") and e.args:
                v = self.fold(e.args[0], f)
                return v if isinstance(v, str) else None
            return None
        if isinstance(e, ast.Name):
            if any(p_.arg == e.id for p_ in self.cg._params_of(f)) and not self.cg._assignments_to_name(f, e.id):
                # a struct object received as a parameter: every call site must pass the same layout
                name = f.cls.name if (f.name == "__init__" and f.cls is not None) else f.name
                ps = [q.arg for q in self.cg._params_of(f)]
                idx = ps.index(e.id)
                fmts = set()
                sites = 0
                for g, call in self.cg.callsites_of(name)[:40]:
                    ts, kind = self.cg.resolve_call(call, g)
                    if not any(t.node is f.node for t in ts):
                        continue
                    sites += 1
                    off = 1 if (self.cg.is_method(f) and (kind == "ctor" or isinstance(call.func, ast.Attribute))) else 0
                    arg = call.args[idx - off] if 0 <= idx - off < len(call.args) else None
                    for kw in call.keywords:
                        if kw.arg == e.id:
                            arg = kw.value
                    fmts.add(self.struct_fmt(arg, g, depth + 1) if arg is not None else None)
                if sites and len(fmts) == 1 and None not in fmts:
                    return next(iter(fmts))
                return None
            if parent(e) is not None and e.id in self._local_names(f):
                dd = self.cg.dominating_def(e, f)
                if dd is not None:
                    return self.struct_fmt(dd, f, depth + 1)
                rhs = [x for x in self.cg._assignments_to_name(f, e.id)]
                if len(rhs) == 1 and isinstance(rhs[0], ast.AST):
                    return self.struct_fmt(rhs[0], f, depth + 1)
                return None
            r = f.module.resolve_name(e.id)
            if r and r[0] == "const":
                g = self._module_ctx(r[1])
                return self.struct_fmt(r[2], g, depth + 1) if g is not None else None
            return None
        if isinstance(e, ast.Attribute) and isinstance(e.value, ast.Name):
            sn = self.cg.self_name(f)
            cls = None
            if sn is not None and e.value.id == sn:
                cls = self.cg.type_of(e.value, f)
            else:
                r = f.module.resolve_name(e.value.id) if e.value.id not in self._local_names(f) else None
                if r and r[0] == "class":
                    cls = r[1]
            if isinstance(cls, Cls):
                ca = cls.lookup_attr(e.attr)
                if ca is not None and not self._stored(cls, e.attr):
                    g = self._module_ctx(cls.module)
                    return self.struct_fmt(ca, g, depth + 1) if g is not None else None
        return None

    def _module_ctx(self, module):
        """a pseudo function context for expressions at module / class level"""
        k = ("modctx", module.relpath)
        if k not in self._attr:
            node = ast.FunctionDef(name="<module>", args=ast.arguments(posonlyargs=[], args=[], kwonlyargs=[], kw_defaults=[], defaults=[]),
                                   body=[ast.Pass()], decorator_list=[], lineno=0, col_offset=0)
            self._attr[k] = Func(module, "<module>", node, None)
        return self._attr[k]

    def struct_size(self, e, f: Func):
        """`X.size` with X a struct object -> its byte size"""
        if isinstance(e, ast.Attribute) and e.attr == "size":
            fmt = self.struct_fmt(e.value, f)
            if fmt is not None:
                try:
                    return struct.calcsize(fmt)
                except struct.error:
                    return None
        return None

    def is_packer(self, base, f: Func):
        """`base[...]` yields a struct.Struct: base is a DalvikPacker-like object (a class whose
        __getitem__ returns struct.Struct(self.endian_tag + item)) or is spelled `<x>.packer`."""
        t = self.cg.type_of(base, f)
        if isinstance(t, Cls):
            gi = t.lookup("__getitem__")
            if gi is not None:
                return any(isinstance(n, ast.Call) and ast.unparse(n.func) in ("struct.Struct", "Struct") for n in ast.walk(gi.node))
            return False
        if t is EXTERNAL:
            return False
        if isinstance(base, ast.Attribute) and base.attr == "packer":
            # the packer property of ClassManager; verified by looking the property up by name
            for p in self.cg.props.get("packer", []) + self.cg.by_name.get("packer", []):
                rt = None
                for n in ast.walk(p.node):
                    if isinstance(n, ast.Return) and n.value is not None:
                        rt = self.cg.type_of(n.value, p)
                        if isinstance(rt, Cls) and rt.lookup("__getitem__") is not None:
                            return self.is_packer_cls(rt)
            return False
        return False

    def is_packer_cls(self, c: Cls):
        gi = c.lookup("__getitem__")
        return gi is not None and any(isinstance(n, ast.Call) and ast.unparse(n.func) in ("struct.Struct", "Struct") for n in ast.walk(gi.node))

    def _call_bounds(self, call, f, depth, subst):
        """bounds of the value returned by a repository function: join over all `return` expressions"""
        if subst is not None:
            # inside a substituted method body only self-method calls are followed
            fn = call.func
            if isinstance(fn, ast.Attribute) and isinstance(fn.value, ast.Name) and fn.value.id == subst[0]:
                ms = self.cg._typed_method(subst[1], fn.attr)
                return self._returns_bounds(ms, depth, recv_cls=subst[1])
            return TOP
        ts, kind = self.cg.resolve_call(call, f)
        if not ts or kind in ("external", "unknown", "lambda"):
            return TOP
        if kind == "ctor":
            return TOP
        recv_cls = None
        if isinstance(call.func, ast.Attribute):
            t = self.cg.type_of(call.func.value, f)
            if isinstance(t, Cls):
                recv_cls = t
        return self._returns_bounds(ts, depth, recv_cls)

    def _returns_bounds(self, funcs, depth, recv_cls=None):
        if not funcs:
            return TOP
        out = None
        for m in funcs:
            key = (id(m.node), id(recv_cls) if recv_cls else 0)
            if key in self._ret:
                r = self._ret[key]
            else:
                self._ret[key] = TOP
                r = self._func_return_bounds(m, depth, recv_cls)
                self._ret[key] = r
            out = r if out is None else iv_join(out, r)
        return out if out is not None else TOP

    def _func_return_bounds(self, m: Func, depth, recv_cls):
        rets = [n for n in own_nodes(m.node) if isinstance(n, ast.Return)]
        if not rets or any(r.value is None for r in rets):
            return TOP
        # falling off the end returns None -> not an int; only accept bodies that end in return/raise
        last = m.node.body[-1]
        from .cfg import leaves_only
        if not leaves_only(m.node.body):
            return TOP
        sn = self.cg.self_name(m)
        out = None
        for r in rets:
            cls = recv_cls if (recv_cls is not None and sn is not None) else None
            if cls is None and sn is not None:
                cls = self.cg.type_of(ast.Name(id=sn, ctx=ast.Load()), m)
            b = self.eval(r.value, m, depth + 1, None)
            if b == TOP and sn is not None and isinstance(cls, Cls):
                b = self.eval(r.value, m, depth + 1, (sn, cls))
            out = b if out is None else iv_join(out, b)
        return out

    def _attr_bounds_expr(self, e: ast.Attribute, f, depth, subst):
        if subst is not None:
            if isinstance(e.value, ast.Name) and e.value.id == subst[0]:
                return self.attr_bounds(subst[1], e.attr, depth)
            return TOP
        t = self.cg.type_of(e.value, f)
        if isinstance(t, Cls):
            return self.attr_bounds(t, e.attr, depth)
        return TOP

    def attr_bounds(self, cls: Cls, attr, depth=0):
        """bounds of `obj.attr` for a fully constructed obj of class cls: a property is evaluated
        through its return expressions; a data attribute through all stores to it, refined by the
        raise-guards at the top level of __init__ that follow the last store."""
        key = (id(cls), attr, "bounds")
        if key in self._attr:
            if key in self._attr_busy:
                self._attr_rec_hit = True    # mutually dependent attributes: the caller re-evaluates once
            if (id(cls), attr) in self.loose_attrs:
                self.loose_hits.append("%s.%s" % (cls.name, attr))
            return self._attr[key]
        self._attr[key] = TOP
        self._attr_busy.add(key)
        before = len(self.loose_hits)
        outer_hit = self._attr_rec_hit
        self._attr_rec_hit = False
        r = self._attr_bounds(cls, attr, depth)
        if self._attr_rec_hit and depth == 0:
            # second pass: the attributes this one is compared with now have (first-pass) bounds
            self._attr[key] = r
            self.loose_attrs.discard((id(cls), attr))
            del self.loose_hits[before:]
            for k2 in [k for k in self._attr if len(k) == 3 and k[2] == "bounds" and k[0] == id(cls) and k != key and k not in self._attr_busy]:
                self._attr.pop(k2)
                self.loose_attrs.discard((k2[0], k2[1]))
            r = self._attr_bounds(cls, attr, depth)
        self._attr_rec_hit = outer_hit or (self._attr_rec_hit and depth > 0)
        self._attr_busy.discard(key)
        if len(self.loose_hits) > before:
            self.loose_attrs.add((id(cls), attr))   # derived from loose bounds (property over a loose attribute ...)
        self._attr[key] = r
        if (id(cls), attr) in self.loose_attrs:
            self.loose_hits.append("%s.%s" % (cls.name, attr))
        return r

    def _attr_bounds(self, cls, attr, depth):
        pm = self.cg.getter(cls, attr)
        if pm is not None:
            return self._returns_bounds([pm], depth, recv_cls=cls)
        stores = self._stores(cls, attr)
        if not stores:
            ca = cls.lookup_attr(attr)
            if ca is not None:
                v = self.folder.fold(ca, cls.module)
                if isinstance(v, int):
                    return iv(int(v))
            return TOP
        out = None
        cons = self.construction_methods(cls)
        init_only = True
        for m, stmt, tgt, val, slot in stores:
            if id(m.node) not in cons:
                init_only = False
            if val is None:
                b = TOP
            elif slot is not None:
                b = TOP
                if isinstance(val, ast.Call) and isinstance(val.func, ast.Name) and val.func.id == "divmod" and len(val.args) == 2:
                    k = self.eval(val.args[1], m, depth + 1)
                    x = self.eval(val.args[0], m, depth + 1)
                    if k[0] == k[1] and k[0] > 0:
                        if slot == 1:
                            b = (0, k[0] - 1)
                        elif slot == 0:
                            b = (x[0] // k[0] if x[0] != -INF else -INF, x[1] // k[0] if x[1] != INF else INF)
                if isinstance(val, ast.Call) and CallGraph._is_unpack_call(val):
                    fmt = self.unpack_fmt(val, m)
                    if fmt is not None:
                        sl = fmt_slots(fmt)
                        ntg = len([t for t in stmt.targets[0].elts]) if isinstance(stmt, ast.Assign) else 0
                        if len(sl) == ntg and sl[slot] is not None:
                            b = sl[slot]
            else:
                b = self.eval(val, m, depth + 1)
            out = b if out is None else iv_join(out, b)
        if out is None:
            out = TOP
        if init_only:
            out = self._refine_by_guards(cls, attr, stores, out, depth)
        else:
            # stored after construction as well: a sound range, but nothing is known about which values occur
            self.loose_attrs.add((id(cls), attr))
        return out

    def construction_methods(self, cls: Cls):
        """__init__ plus the methods that are only ever called -- as self.m(...) -- from __init__ or from other such
        methods (private helpers of the constructor) -> {id(node): Func}"""
        key = (id(cls), "cons")
        if key in self._attr:
            return self._attr[key]
        init = cls.lookup("__init__")
        res = {}
        if init is not None:
            res[id(init.node)] = init
            changed = True
            while changed:
                changed = False
                for name, m in cls.methods.items():
                    if id(m.node) in res or name.startswith("__") or not self.cg.is_method(m):
                        continue
                    sites = self.cg.callsites_of(name)
                    if not sites:
                        continue
                    ok = True
                    for g, call in sites:
                        fn = call.func
                        if not (isinstance(fn, ast.Attribute) and isinstance(fn.value, ast.Name) and fn.value.id == self.cg.self_name(g)
                                and id(g.node) in res):
                            ok = False
                            break
                    # also referenced without being called (passed around)?
                    if ok:
                        res[id(m.node)] = m
                        changed = True
        self._attr[key] = res
        return res

    def _refine_by_guards(self, cls, attr, stores, b, depth):
        """bounds of self.attr at the NORMAL exits of __init__: for every normal exit (return / falling off the end)
        that follows the last store, the conditions that must hold to get there -- branch conditions of the enclosing
        ifs and the negations of earlier `if c: <always leaves>` statements -- are intersected; the exits are joined.
        Conditions that mention the attribute but are not understood make the result *loose* (recorded in
        self.loose_attrs): it is then an over-approximation that must not be used as an attainable value."""
        init = cls.lookup("__init__")
        cons = self.construction_methods(cls)
        if init is None or any(id(m.node) not in cons for m, *_ in stores):
            return b
        sn = self.cg.self_name(init)
        body = init.node.body
        # methods of the constructor family that (transitively) store the attribute
        storing = {id(m.node) for m, *_ in stores}
        changed = True
        while changed:
            changed = False
            for mid, m in cons.items():
                if mid in storing:
                    continue
                for n in own_nodes(m.node):
                    if isinstance(n, ast.Call) and isinstance(n.func, ast.Attribute) and isinstance(n.func.value, ast.Name) \
                            and n.func.value.id == self.cg.self_name(m):
                        t2 = cls.lookup(n.func.attr)
                        if t2 is not None and id(t2.node) in storing:
                            storing.add(mid)
                            changed = True
                            break
        last_store = -1
        for i, s in enumerate(body):
            for x in [s] + list(own_nodes(s)):
                if any(x is stmt for m, stmt, *_ in stores):
                    last_store = max(last_store, i)
                if isinstance(x, ast.Call) and isinstance(x.func, ast.Attribute) and isinstance(x.func.value, ast.Name) and x.func.value.id == sn:
                    t2 = cls.lookup(x.func.attr)
                    if t2 is not None and id(t2.node) in storing and t2 is not init:
                        last_store = max(last_store, i)
        tail = body[last_store + 1:]
        self._opaque_raise = False
        self._inline_cls = (cls, sn)
        exits, falls = self._normal_exits(tail, [[]])
        exits = exits + falls
        if not exits:
            return b   # the constructor never returns normally
        loose = [self._opaque_raise]
        # a rejecting condition over something that is not an attribute / constant (a local computed from the
        # attributes, a call ...) may constrain this attribute in a way that is not seen here
        params = {p_.arg for p_ in self.cg._params_of(init)}
        for cons in exits[:64]:
            for test, truth in cons:
                for n in ast.walk(test):
                    if isinstance(n, ast.Name) and n.id != sn and n.id not in params and isinstance(self.fold(n, init), Unknown):
                        loose[0] = True     # a local, possibly computed from the attributes
                    if isinstance(n, ast.Call):
                        parts = [n.func] + list(n.args) + [k.value for k in n.keywords]
                        if any(isinstance(x, ast.Name) and x.id == sn for p_ in parts for x in ast.walk(p_)):
                            loose[0] = True  # a call that sees the object
        is_attr = lambda x, a=attr: isinstance(x, ast.Attribute) and x.attr == a and isinstance(x.value, ast.Name) and x.value.id == sn
        mentions = lambda e: any(is_attr(x) for x in ast.walk(e))

        def atoms(test, truth):
            """-> list of (compare, truth) that all hold, or None when the information is disjunctive"""
            if isinstance(test, ast.UnaryOp) and isinstance(test.op, ast.Not):
                return atoms(test.operand, not truth)
            if isinstance(test, ast.BoolOp):
                conj = (isinstance(test.op, ast.And) and truth) or (isinstance(test.op, ast.Or) and not truth)
                if not conj:
                    return None
                out = []
                for v in test.values:
                    a = atoms(v, truth)
                    if a is None:
                        if mentions(v):
                            loose[0] = True
                        continue
                    out += a
                return out
            if isinstance(test, ast.Compare):
                if len(test.ops) == 1:
                    return [(test.left, test.ops[0], test.comparators[0], truth)]
                if truth:
                    out = []
                    l = test.left
                    for op, r in zip(test.ops, test.comparators):
                        out.append((l, op, r, True))
                        l = r
                    return out
                return None
            return []

        FLIP = {ast.Lt: ast.Gt, ast.LtE: ast.GtE, ast.Gt: ast.Lt, ast.GtE: ast.LtE, ast.Eq: ast.Eq, ast.NotEq: ast.NotEq}
        NEG = {ast.Lt: ast.GtE, ast.LtE: ast.Gt, ast.Gt: ast.LtE, ast.GtE: ast.Lt, ast.Eq: ast.NotEq, ast.NotEq: ast.Eq}
        result = None
        for cons in exits[:64]:
            lo, hi = b
            for test, truth in cons:
                if not mentions(test):
                    continue
                at = atoms(test, truth)
                if at is None:
                    loose[0] = True
                    continue
                for l, op, r, tr in at:
                    if not (mentions(l) or mentions(r)):
                        continue
                    ot = type(op)
                    if ot not in FLIP:
                        loose[0] = True
                        continue
                    if is_attr(r) and not is_attr(l):
                        l, r, ot = r, l, FLIP[ot]
                    if not is_attr(l) or mentions(r):
                        loose[0] = True
                        continue
                    if not tr:
                        ot = NEG[ot]
                    ob = self.eval(r, init, depth + 1)
                    if ob == TOP and isinstance(r, ast.Attribute) and isinstance(r.value, ast.Name) and r.value.id == sn and r.attr != attr:
                        ob = self.attr_bounds(cls, r.attr, depth + 1)
                    if ot is ast.GtE and ob[0] != -INF:
                        lo = max(lo, ob[0])
                    elif ot is ast.Gt and ob[0] != -INF:
                        lo = max(lo, ob[0] + 1)
                    elif ot is ast.LtE and ob[1] != INF:
                        hi = min(hi, ob[1])
                    elif ot is ast.Lt and ob[1] != INF:
                        hi = min(hi, ob[1] - 1)
                    elif ot is ast.Eq and ob != TOP:
                        lo, hi = max(lo, ob[0]), min(hi, ob[1])
                    elif ot is ast.NotEq and ob[0] == ob[1] and ob[0] == lo:
                        lo = lo + 1
                    elif ot is ast.NotEq:
                        pass
                    elif ot in (ast.GtE, ast.Gt, ast.LtE, ast.Lt, ast.Eq):
                        loose[0] = True   # the bound of the other side that would be needed is not known
                    else:
                        loose[0] = True
            result = (lo, hi) if result is None else iv_join(result, (lo, hi))
        if len(exits) > 64:
            loose[0] = True
        if loose[0]:
            self.loose_attrs.add((id(cls), attr))
        return result if result is not None else b

    def _normal_exits(self, stmts, accs, depth=0):
        """-> (exits, falls): condition lists [(test, truth), ...] under which a `return` inside `stmts` is reached /
        under which control falls off the end of `stmts`.  `accs`: condition lists holding on entry."""
        exits = []
        cur = [list(a) for a in accs]
        for s in stmts:
            if not cur:
                break
            if len(cur) > 32 or depth > 8:
                # too many variants: forget the conditions (sound: fewer constraints)
                cur = [[]]
            if isinstance(s, ast.Return):
                exits += cur
                cur = []
            elif isinstance(s, ast.Raise):
                cur = []
            elif isinstance(s, ast.If):
                e1, f1 = self._normal_exits(s.body, [a + [(s.test, True)] for a in cur], depth + 1)
                e2, f2 = self._normal_exits(s.orelse, [a + [(s.test, False)] for a in cur], depth + 1) if s.orelse \
                    else ([], [a + [(s.test, False)] for a in cur])
                exits += e1 + e2
                cur = f1 + f2
            elif isinstance(s, ast.For) and isinstance(s.iter, (ast.Tuple, ast.List)) and not s.orelse and len(s.iter.elts) <= 8 \
                    and not any(isinstance(n, (ast.Break, ast.Continue)) for n in own_nodes(s)):
                # `for a, b in ((self.x, "x"), (self.y, "y")): if a < K: raise`  -- unrolled with the names substituted
                for elt in s.iter.elts:
                    sub = {}
                    if isinstance(s.target, ast.Name):
                        sub[s.target.id] = elt
                    elif isinstance(s.target, (ast.Tuple, ast.List)) and isinstance(elt, (ast.Tuple, ast.List)) and len(elt.elts) == len(s.target.elts):
                        for t, v in zip(s.target.elts, elt.elts):
                            if isinstance(t, ast.Name):
                                sub[t.id] = v
                    body = [_subst_names(x, sub) for x in s.body]
                    e1, cur = self._normal_exits(body, cur, depth + 1)
                    exits += e1
                    if not cur:
                        break
            elif isinstance(s, (ast.For, ast.AsyncFor, ast.While, ast.Try, ast.With, ast.AsyncWith, ast.Match)):
                if any(isinstance(n, ast.Raise) for n in own_nodes(s)):
                    self._opaque_raise = True   # rejection logic that is not followed
                if any(isinstance(n, ast.Return) for n in own_nodes(s)):
                    exits += cur
                # break/continue of an enclosing loop are not modelled: keep the conditions gathered so far
            elif isinstance(s, (ast.Break, ast.Continue)):
                cur = []
            elif isinstance(s, ast.Expr) and isinstance(s.value, ast.Call) and getattr(self, "_inline_cls", None) is not None \
                    and isinstance(s.value.func, ast.Attribute) and isinstance(s.value.func.value, ast.Name) \
                    and s.value.func.value.id == self._inline_cls[1]:
                # `self._validate(...)`: the conditions under which the helper returns normally hold afterwards
                cls_, sn_ = self._inline_cls
                m = cls_.lookup(s.value.func.attr)
                if m is not None and depth <= 4 and any(isinstance(n, ast.Raise) for n in own_nodes(m.node)):
                    msn = self.cg.self_name(m)
                    body = m.node.body
                    if msn != sn_:
                        body = [_subst_names(x, {msn: ast.Name(id=sn_, ctx=ast.Load())}) for x in body]
                    # parameters of the helper are opaque names: conditions over them count as not understood
                    e1, f1 = self._normal_exits(body, cur, depth + 2)
                    cur = e1 + f1     # a `return` of the helper continues in the caller
                    if any(isinstance(n, ast.Call) and isinstance(n.func, ast.Attribute) and isinstance(n.func.value, ast.Name)
                           and n.func.value.id == msn and any(isinstance(r, ast.Raise) for r in own_nodes(getattr(cls_.lookup(n.func.attr), "node", ast.Pass())))
                           for n in own_nodes(m.node) if not isinstance(parent(n), ast.Expr)):
                        self._opaque_raise = True
            elif any(isinstance(n, ast.Call) and isinstance(n.func, ast.Attribute) and isinstance(n.func.value, ast.Name)
                     and getattr(self, "_inline_cls", None) is not None and n.func.value.id == self._inline_cls[1]
                     and self._inline_cls[0].lookup(n.func.attr) is not None
                     and any(isinstance(r, ast.Raise) for r in own_nodes(self._inline_cls[0].lookup(n.func.attr).node))
                     for n in [s] + list(own_nodes(s))):
                self._opaque_raise = True   # a helper that may reject is called in a position that is not followed
            # other statements do not constrain
        return exits, cur

# =============================================================================
# Stream-position abstract interpretation
# =============================================================================
_TOKEN = [0]


def _new_token():
    _TOKEN[0] += 1
    return _TOKEN[0]


def _subst_names(node, sub):
    """copy of an AST subtree (without parent links) in which the names in `sub` are replaced by expressions"""
    if not sub:
        return node

    class T(ast.NodeTransformer):
        def visit_Name(self, n):
            if n.id in sub and isinstance(n.ctx, ast.Load):
                return sub[n.id]
            return n
    import copy
    fresh = ast.parse(ast.unparse(node)).body[0] if isinstance(node, ast.stmt) else ast.parse(ast.unparse(node), mode="eval").body
    return T().visit(fresh)


class SState:
    """abstract state: per stream key the position interval relative to the base point and the
    number of anchored checked bytes; `saved` maps expression text -> (key, lo, hi) for values known
    to equal base_position(key) + [lo, hi]."""
    __slots__ = ("pos", "anch", "saved", "kend", "tok", "stok", "absp", "inv", "relp")

    def __init__(self, pos=None, anch=None, saved=None, kend=None, tok=None, stok=None, absp=None, inv=None, relp=None):
        self.relp = relp or {}   # key -> (parameter, sign, lo, hi): position == base + sign*parameter + [lo, hi]
        self.absp = absp or {}   # key -> (parameter name, lo, hi): position == value of that parameter + [lo, hi]
        self.inv = inv or {}     # key -> text: the stream was put at a loop-invariant absolute position (same in every iteration)
        self.pos = pos or {}
        self.anch = anch or {}
        self.saved = saved or {}
        self.kend = kend or {}   # key -> relative offset up to which bytes are known to exist (a checked read got that far)
        self.tok = tok or {}     # key -> token, renewed by every operation that may move the stream
        self.stok = stok or {}   # saved name -> token of its stream at the time the value was taken

    def copy(self):
        return SState(dict(self.pos), dict(self.anch), dict(self.saved), dict(self.kend), dict(self.tok), dict(self.stok), dict(self.absp),
                      dict(self.inv), dict(self.relp))

    def p(self, key):
        return self.pos.get(key, ZERO)

    def a(self, key):
        return self.anch.get(key, 0)

    def keys(self):
        return set(self.pos) | set(self.anch)

    def __eq__(self, o):
        return isinstance(o, SState) and self._norm() == o._norm()

    def _norm(self):
        ks = self.keys()
        return ({k: self.p(k) for k in ks if self.p(k) != ZERO}, {k: self.a(k) for k in ks if self.a(k)}, self.saved,
                {k: v for k, v in self.kend.items() if v != -INF}, self.absp)

    def __repr__(self):
        return "S(%s)" % ", ".join("%s:%s/a%d" % (k, iv_str(self.p(k)), self.a(k)) for k in sorted(self.keys()))


def s_join(a, b):
    if a is None:
        return b
    if b is None:
        return a
    out = SState()
    for k in a.keys() | b.keys():
        out.pos[k] = iv_join(a.p(k), b.p(k))
        out.anch[k] = min(a.a(k), b.a(k))
    for n, (k, lo, hi) in a.saved.items():
        if n in b.saved and b.saved[n][0] == k:
            out.saved[n] = (k, min(lo, b.saved[n][1]), max(hi, b.saved[n][2]))
    for k in set(a.kend) & set(b.kend):
        out.kend[k] = min(a.kend[k], b.kend[k])
    for k in set(a.tok) | set(b.tok):
        out.tok[k] = a.tok[k] if a.tok.get(k, 0) == b.tok.get(k, 0) else _new_token()
    for n in set(a.stok) & set(b.stok):
        if a.stok[n] == b.stok[n]:
            out.stok[n] = a.stok[n]
        elif n in out.saved:
            # in both states the value was taken at the *current* position of its stream: that relation survives
            k = out.saved[n][0]
            if a.stok[n] == a.tok.get(k, 0) and b.stok[n] == b.tok.get(k, 0) and k in out.tok:
                out.stok[n] = out.tok[k]
    for k in set(a.absp) & set(b.absp):
        if a.absp[k][0] == b.absp[k][0]:
            out.absp[k] = (a.absp[k][0], min(a.absp[k][1], b.absp[k][1]), max(a.absp[k][2], b.absp[k][2]))
    for k in set(a.inv) & set(b.inv):
        out.inv[k] = a.inv[k]
    for k in set(a.relp) & set(b.relp):
        if a.relp[k][:2] == b.relp[k][:2]:
            out.relp[k] = (a.relp[k][0], a.relp[k][1], min(a.relp[k][2], b.relp[k][2]), max(a.relp[k][3], b.relp[k][3]))
    return out


def s_widen(old, new):
    """old ⊑ new expected; bounds that moved go to infinity, anchors to the minimum"""
    out = SState()
    for k in old.keys() | new.keys():
        o, n = old.p(k), new.p(k)
        out.pos[k] = (o[0] if n[0] >= o[0] else -INF, o[1] if n[1] <= o[1] else INF)
        out.anch[k] = min(old.a(k), new.a(k))
    for nme, v in old.saved.items():
        nv = new.saved.get(nme)
        if nv == v:
            out.saved[nme] = v
        elif nv is not None and nv[0] == v[0]:
            out.saved[nme] = (v[0], v[1] if nv[1] >= v[1] else -INF, v[2] if nv[2] <= v[2] else INF)
    for k, v in old.kend.items():
        if new.kend.get(k, -INF) >= v:
            out.kend[k] = v
    for k in set(old.tok) | set(new.tok):
        out.tok[k] = old.tok[k] if old.tok.get(k, 0) == new.tok.get(k, 0) else _new_token()
    for n, v in old.stok.items():
        if new.stok.get(n) == v:
            out.stok[n] = v
        elif n in out.saved and n in new.stok:
            k = out.saved[n][0]
            if v == old.tok.get(k, 0) and new.stok[n] == new.tok.get(k, 0) and k in out.tok:
                out.stok[n] = out.tok[k]
    for k, v in old.absp.items():
        if new.absp.get(k) == v:
            out.absp[k] = v
    return out


class Out:
    """outcomes of executing a block"""
    __slots__ = ("fall", "brk", "cont", "ret")

    def __init__(self, fall=None, brk=None, cont=None, ret=None):
        self.fall, self.brk, self.cont, self.ret = fall, brk, cont, ret


class Summary:
    """effect of calling a function, per stream key as spelled inside the callee"""

    def __init__(self):
        self.keys = {}        # key -> (lo, hi, anch)   (parameter-rooted and self-rooted keys)
        self.returns = False  # some path returns normally
        self.wild = False     # may move a stream it does not receive as a parameter to an unknown/earlier position
        self.has_seek = False # closure contains a seek (position at an exception is arbitrary)
        self.touches = False  # closure reads/seeks some stream
        self.facts = {}       # (constructors) attr text 'self.x' -> (key, lo, hi): attribute holds position of key at entry + [lo,hi]
        self.unresolved = []  # calls that receive a stream but could not be resolved
        self.abs = {}         # key -> (parameter, lo, hi): on return the stream is at <value of parameter> + [lo, hi]
        self.kend = {}        # key -> offset (relative to the entry position) up to which bytes are known to exist on return
        self.rel = {}         # key -> (parameter, sign, lo, hi): on return the stream is at entry position + sign*<parameter> + [lo, hi]
        self.by_ret = {}      # True/False -> Summary of the paths that return that constant (boolean predicates only)
        self.ret_pos = None   # (key, lo, hi): the returned value is entry position of key + [lo, hi]

    def sig(self):
        return (tuple(sorted(self.keys.items())), self.returns, self.wild, self.has_seek, self.touches, tuple(sorted(self.facts.items())),
                tuple(sorted(self.abs.items())), tuple(sorted(self.rel.items())), self.ret_pos, tuple(sorted(self.kend.items())),
                tuple(sorted((str(k), v.sig()) for k, v in self.by_ret.items())))

    def __repr__(self):
        return "Summary(%s%s%s%s)" % (
            ", ".join("%s:%s/a%s" % (k, iv_str(v[:2]), v[2]) for k, v in sorted(self.keys.items())),
            "" if self.returns else " NORETURN", " WILD" if self.wild else "", " facts=%s" % self.facts if self.facts else "")


STREAM_METHODS = ("read", "seek", "tell")


def _tv3(e, env):
    """three-valued truth of e given name -> (constant,) ; None = unknown"""
    def val(x):
        if isinstance(x, ast.Constant):
            return (x.value,)
        if isinstance(x, ast.Name):
            return env.get(x.id)
        if isinstance(x, ast.Attribute):
            return env.get(dotted(x))
        return None
    if isinstance(e, ast.BoolOp):
        vs = [_tv3(v, env) for v in e.values]
        if isinstance(e.op, ast.And):
            if any(v is False for v in vs):
                return False
            return True if all(v is True for v in vs) else None
        if any(v is True for v in vs):
            return True
        return False if all(v is False for v in vs) else None
    if isinstance(e, ast.UnaryOp) and isinstance(e.op, ast.Not):
        v = _tv3(e.operand, env)
        return None if v is None else (not v)
    if isinstance(e, ast.Compare) and len(e.ops) == 1:
        a, b = val(e.left), val(e.comparators[0])
        if a is None or b is None:
            return None
        ops = {ast.Eq: lambda x, y: x == y, ast.NotEq: lambda x, y: x != y, ast.Lt: lambda x, y: x < y, ast.LtE: lambda x, y: x <= y,
               ast.Gt: lambda x, y: x > y, ast.GtE: lambda x, y: x >= y, ast.Is: lambda x, y: x is y, ast.IsNot: lambda x, y: x is not y}
        try:
            return bool(ops[type(e.ops[0])](a[0], b[0])) if type(e.ops[0]) in ops else None
        except Exception:
            return None
    v = val(e)
    return None if v is None else bool(v[0])


class PathOracle:
    """enumerates the branch decisions of the `if` statements met by successive abstract runs (depth first):
    each run follows exactly one syntactic path through the ifs that are not inside inner loops."""

    def __init__(self):
        self.decisions = []
        self.i = 0

    def next(self):
        if self.i < len(self.decisions):
            d = self.decisions[self.i]
        else:
            d = True
            self.decisions.append(True)
        self.i += 1
        return d

    def advance(self):
        """prepare the next path; False when all paths were enumerated"""
        self.decisions = self.decisions[: self.i]
        while self.decisions and self.decisions[-1] is False:
            self.decisions.pop()
        if not self.decisions:
            return False
        self.decisions[-1] = False
        self.i = 0
        return True


class StreamAnalysis:
    def __init__(self, cg: CallGraph, bounds: Bounds | None = None):
        self.cg = cg
        self.b = bounds or Bounds(cg)
        self.summaries: dict[int, Summary] = {}
        self._in_progress = set()
        self._alias = {}
        self._fresh = {}
        self._cr_hi = {}         # id(unpack call) -> largest size when the layout differs between call sites
        self.hooks = {}          # id(node) -> list to which the state *before* the node is appended
        self.post_hooks = {}     # id(node) -> list; state *after*

    # ------------------------------------------------------------------ keys
    def aliases(self, f: Func):
        """single-assignment aliases  T = V  (T a local name or self attribute, V a name/attribute chain)"""
        k = id(f.node)
        if k in self._alias:
            return self._alias[k]
        cand, count = {}, {}
        fresh = set()
        for n in own_nodes(f.node):
            if isinstance(n, ast.Assign) and len(n.targets) == 1:
                t = n.targets[0]
                tt = dotted(t)
                if tt is None:
                    continue
                count[tt] = count.get(tt, 0) + 1
                if isinstance(n.value, (ast.Name, ast.Attribute)) and dotted(n.value) is not None:
                    cand[tt] = dotted(n.value)
                elif isinstance(n.value, ast.Call):
                    r = self.cg.resolve_callable(n.value.func, f)
                    if r is not None and r[0] == "external":
                        fresh.add(tt)
            elif isinstance(n, (ast.Assign, ast.AugAssign, ast.For, ast.AsyncFor, ast.comprehension, ast.withitem, ast.AnnAssign)):
                tg = []
                if isinstance(n, ast.Assign):
                    tg = n.targets
                elif isinstance(n, ast.withitem):
                    tg = [n.optional_vars] if n.optional_vars is not None else []
                else:
                    tg = [n.target]
                for t in tg:
                    for x in ast.walk(t):
                        d = dotted(x) if isinstance(x, (ast.Name, ast.Attribute)) else None
                        if d:
                            count[d] = count.get(d, 0) + 2
        params = {p.arg for p in self.cg._params_of(f)}
        al = {t: v for t, v in cand.items() if count.get(t, 0) == 1 and t not in params and t != v}
        self._alias[k] = al
        self._fresh[k] = {t for t in fresh if count.get(t, 0) >= 1 and t not in params and "." not in t}
        return al

    def key_of(self, e, f: Func):
        d = dotted(e)
        if d is None:
            return None
        al = self.aliases(f)
        seen = set()
        while d in al and d not in seen:
            seen.add(d)
            d = al[d]
        # prefix aliasing:  x = self.axml ; x.buff
        parts = d.split(".")
        for i in range(len(parts) - 1, 0, -1):
            pre = ".".join(parts[:i])
            if pre in al and pre not in seen:
                d = al[pre] + "." + ".".join(parts[i:])
                break
        return d

    def is_stream_recv(self, recv, f: Func):
        """receiver of .read/.seek/.tell is treated as a byte stream unless its static type is a repository class"""
        t = self.cg.type_of(recv, f)
        return not isinstance(t, Cls)

    _BYTES_MARKS = ("BinaryIO", "BytesIO", "BufferedReader", "BufferedIOBase", "RawIOBase", "IO[bytes]", "BufferedRandom")
    _STR_MARKS = ("TextIO", "StringIO", "TextIOWrapper", "IO[str]")

    def read_kind(self, e, f: Func, depth=0):
        """type of what `<e>.read(..)` returns, as far as the code establishes it: 'bytes' | 'str' | None.
        Evidence: annotation of a parameter, the constructor a local / attribute was bound to (io.BytesIO, open(.., 'rb')),
        what the call sites pass for an un-annotated parameter, a struct unpack of a read on the same stream."""
        if depth > 4 or e is None:
            return None
        cache = self.__dict__.setdefault("_kind_cache", {})
        txt = dotted(e) if isinstance(e, (ast.Name, ast.Attribute)) else None
        ck = (id(f.node), txt)
        if txt is not None and ck in cache:
            return cache[ck]
        if txt is not None:
            cache[ck] = None
        r = self._read_kind(e, f, depth)
        if txt is not None:
            cache[ck] = r
        return r

    def _kind_of_ctor(self, v, f, depth):
        """kind of the stream object produced by expression v"""
        if isinstance(v, ast.Call):
            name = ast.unparse(v.func)
            last = name.split(".")[-1]
            if last in ("BytesIO", "BufferedReader", "BufferedRandom", "FileIO"):
                return "bytes"
            if last in ("StringIO", "TextIOWrapper"):
                return "str"
            if last == "open" and (name == "open" or name.endswith(".open")):
                mode = None
                if len(v.args) >= 2:
                    mode = self.b.fold(v.args[1], f)
                for kw in v.keywords:
                    if kw.arg == "mode":
                        mode = self.b.fold(kw.value, f)
                if mode is None and len(v.args) < 2 and not any(kw.arg == "mode" for kw in v.keywords) and name == "open":
                    return "str"
                if isinstance(mode, str):
                    return "bytes" if "b" in mode else "str"
                return None
            return None
        if isinstance(v, (ast.Name, ast.Attribute)):
            return self.read_kind(v, f, depth + 1)
        return None

    @classmethod
    def _kind_of_annotation(cls, ann):
        if ann is None:
            return None
        t = ast.unparse(ann) if not (isinstance(ann, ast.Constant) and isinstance(ann.value, str)) else ann.value
        if any(m in t for m in cls._BYTES_MARKS):
            return "bytes"
        if any(m in t for m in cls._STR_MARKS):
            return "str"
        return None

    def _read_kind(self, e, f: Func, depth):
        cg = self.cg
        kinds = []
        if isinstance(e, ast.Name):
            for p in cg._params_of(f):
                if p.arg == e.id:
                    k = self._kind_of_annotation(p.annotation)
                    if k:
                        return k
                    # what do the callers pass?
                    name = f.cls.name if (f.name == "__init__" and f.cls is not None and id(f.node) not in cg.outer) else f.name
                    ps = [q.arg for q in cg._params_of(f)]
                    idx = ps.index(e.id)
                    for g, call in cg.callsites_of(name)[:40]:
                        ts, kind = cg.resolve_call(call, g)
                        if not any(t.node is f.node for t in ts):
                            continue
                        off = 1 if (cg.is_method(f) and (kind == "ctor" or isinstance(call.func, ast.Attribute))) else 0
                        arg = call.args[idx - off] if 0 <= idx - off < len(call.args) else None
                        for kw in call.keywords:
                            if kw.arg == e.id:
                                arg = kw.value
                        if arg is not None:
                            kinds.append(self._kind_of_ctor(arg, g, depth + 1))
            for rhs in cg._assignments_to_name(f, e.id):
                if isinstance(rhs, ast.AST):
                    kinds.append(self._kind_of_ctor(rhs, f, depth + 1))
                elif rhs is not None:
                    kinds.append(None)
            for n in own_nodes(f.node):
                if isinstance(n, ast.withitem) and isinstance(n.optional_vars, ast.Name) and n.optional_vars.id == e.id:
                    kinds.append(self._kind_of_ctor(n.context_expr, f, depth + 1))
        elif isinstance(e, ast.Attribute):
            t = cg.type_of(e.value, f)
            if isinstance(t, Cls):
                for m, stmt, tgt, val, slot in self.b._stores(t, e.attr):
                    if val is not None and slot is None:
                        kinds.append(self._kind_of_ctor(val, m, depth + 1))
        # a struct unpack of a read on the same stream only works on bytes
        key = self.key_of(e, f) if isinstance(e, (ast.Name, ast.Attribute)) else None
        if key is not None:
            for n in own_nodes(f.node):
                if isinstance(n, ast.Call) and CallGraph._is_unpack_call(n) and n.args:
                    rd = self._as_read(n.args[-1], f)
                    if rd is not None and rd[0] == key and rd[2] is not None:
                        kinds.append("bytes")
        known = [k for k in kinds if k]
        if known and all(k == known[0] for k in known):
            return known[0]
        return None

    def empty_literal_matches(self, const, stream_expr, f: Func):
        """does `<stream>.read()` at end of input EQUAL this empty literal?  True / False (established type differs:
        b'' != '' in Python 3) / None (type of the stream not established)"""
        if not (isinstance(const, ast.Constant) and const.value in (b"", "")):
            return None
        k = self.read_kind(stream_expr, f)
        if k is None:
            return None
        return (k == "bytes") == isinstance(const.value, bytes)

    def is_fresh_local(self, key, f: Func):
        self.aliases(f)
        return key in self._fresh.get(id(f.node), set())

    # ------------------------------------------------------------------ checked reads
    def checked_read(self, call, f: Func):
        """`call` is struct-style unpack of S.read(n) with n == calcsize(fmt) > 0 -> (key, n, read_call) else None"""
        if not isinstance(call, ast.Call):
            return None
        alias = isinstance(call.func, ast.Name) and self.b.bound_unpack(call.func, f) is not None
        if not alias and not CallGraph._is_unpack_call(call):
            return None
        fmt = self.b.unpack_fmt(call, f)
        if fmt is None:
            return self._self_sized_unpack(call, f)
        try:
            size = struct.calcsize(fmt)
        except struct.error:
            return None
        fn = call.func
        if alias:
            if not call.args:
                return None
            arg = call.args[0]
        elif isinstance(fn, ast.Name) or (isinstance(fn, ast.Attribute) and isinstance(fn.value, ast.Name) and fn.value.id == "struct"):
            if len(call.args) < 2:
                return None
            arg = call.args[1]
        else:
            if not call.args:
                return None
            arg = call.args[0]
        rd = self._as_read(arg, f)
        if rd is None:
            return None
        key, nexpr, rcall = rd
        n = self.b.fold(nexpr, f)
        if not isinstance(n, int) or isinstance(n, bool):
            n = self.b.struct_size(nexpr, f)
        if not isinstance(n, int) or isinstance(n, bool):
            return None
        if n != size or n <= 0:
            return None
        return (key, n, rcall)

    def _self_sized_unpack(self, call, f: Func):
        """`X.unpack(S.read(X.size))` with X a struct object received as a parameter whose call sites pass different layouts:
        the read is checked whatever the layout; it consumes at least the smallest size that is passed (all must be >= 1)."""
        fn = call.func
        if not (isinstance(fn, ast.Attribute) and fn.attr == "unpack" and isinstance(fn.value, ast.Name) and len(call.args) == 1):
            return None
        rd = self._as_read(call.args[0], f)
        if rd is None or rd[2] is None:
            return None
        n = rd[1]
        if not (isinstance(n, ast.Attribute) and n.attr == "size" and isinstance(n.value, ast.Name) and n.value.id == fn.value.id):
            return None
        x = fn.value.id
        if not any(p_.arg == x for p_ in self.cg._params_of(f)) or self.cg._assignments_to_name(f, x):
            return None
        name = f.cls.name if (f.name == "__init__" and f.cls is not None) else f.name
        ps = [q.arg for q in self.cg._params_of(f)]
        idx = ps.index(x)
        sizes = []
        for g, c in self.cg.callsites_of(name)[:60]:
            ts, kind = self.cg.resolve_call(c, g)
            if not any(t.node is f.node for t in ts):
                continue
            off = 1 if (self.cg.is_method(f) and (kind == "ctor" or isinstance(c.func, ast.Attribute))) else 0
            arg = c.args[idx - off] if 0 <= idx - off < len(c.args) else None
            for kw in c.keywords:
                if kw.arg == x:
                    arg = kw.value
            fmt = self.b.struct_fmt(arg, g) if arg is not None else None
            if fmt is None:
                return None
            try:
                sizes.append(struct.calcsize(fmt))
            except struct.error:
                return None
        if not sizes or min(sizes) < 1:
            return None
        self._cr_hi[id(call)] = max(sizes)
        return (rd[0], min(sizes), rd[2])

    def opaque_unpack(self, call, f: Func):
        """an `.unpack(S.read(..))`-shaped call whose format / size could not be established:
        it may or may not be a checked read -> key of the stream, else None"""
        if not isinstance(call, ast.Call) or not CallGraph._is_unpack_call(call) or not call.args:
            return None
        if self.checked_read(call, f) is not None:
            return None
        rd = self._as_read(call.args[-1], f)
        if rd is None:
            return None
        fmt = self.b.unpack_fmt(call, f)
        if fmt is not None:
            try:
                size = struct.calcsize(fmt)
            except struct.error:
                return rd[0]
            n = self.b.fold(rd[1], f)
            if isinstance(n, int) and not isinstance(n, bool):
                return None  # fully understood and simply not a matching read (n != size): unpack always raises or never checks
        return rd[0]

    def _as_read(self, arg, f: Func):
        """arg is `S.read(N)` or a name whose dominating definition is `S.read(N)` -> (key, N expr, call node)"""
        if isinstance(arg, ast.Name):
            dd = self.cg.dominating_def(arg, f)
            if dd is None:
                return None
            # the definition must be the immediately relevant read: no other stream operation on the same
            # stream is checked here; position-wise the read was already accounted for at its own statement
            r = self._as_read(dd, f)
            if r is None:
                return None
            return (r[0], r[1], None)  # None: the read call itself was executed earlier (as an unchecked read)
        if isinstance(arg, ast.Call) and isinstance(arg.func, ast.Attribute) and arg.func.attr == "read" and len(arg.args) == 1 \
                and not arg.keywords and self.is_stream_recv(arg.func.value, f):
            key = self.key_of(arg.func.value, f)
            if key is None:
                return None
            return (key, arg.args[0], arg)
        return None

    # ------------------------------------------------------------------ summaries
    def summary(self, f: Func) -> Summary:
        k = id(f.node)
        if k in self.summaries:
            return self.summaries[k]
        self.compute([f])
        return self.summaries[k]

    def compute(self, roots):
        """bottom-up summaries for everything reachable from roots (least fixpoint inside SCCs)"""
        todo = [f for f in self.cg.closure(roots) if id(f.node) not in self.summaries]
        if not todo:
            return
        for comp in self.cg.bottom_up(todo):
            comp = [f for f in comp if id(f.node) not in self.summaries]
            if not comp:
                continue
            recursive = len(comp) > 1 or any(t.node is comp[0].node for t in self.cg.callees(comp[0]))
            if not recursive:
                f = comp[0]
                self.summaries[id(f.node)] = self._analyse_function(f)
                continue
            for f in comp:
                self.summaries[id(f.node)] = Summary()  # bottom: no normal return
            for rnd in range(12):
                changed = False
                for f in comp:
                    s = self._analyse_function(f)
                    old = self.summaries[id(f.node)]
                    if rnd >= 4:
                        s = self._widen_summary(old, s)
                    if s.sig() != old.sig():
                        changed = True
                        self.summaries[id(f.node)] = s
                if not changed:
                    break
            else:
                for f in comp:
                    s = self.summaries[id(f.node)]
                    s.keys = {k2: (-INF, INF, 0) for k2 in s.keys}
                    s.wild = True

    @staticmethod
    def _widen_summary(old, new):
        for k, v in list(new.keys.items()):
            o = old.keys.get(k)
            if o is None:
                continue
            lo = o[0] if v[0] >= o[0] else -INF
            hi = o[1] if v[1] <= o[1] else INF
            new.keys[k] = (lo, hi, min(o[2], v[2]))
        return new

    def _analyse_function(self, f: Func) -> Summary:
        run = _Run(self, f)
        st0 = SState()
        out = run.block(f.node.body, st0)
        exit_state = s_join(out.fall, out.ret)
        s = self._summary_from_state(f, run, exit_state)
        if exit_state is None:
            return s
        # boolean predicates: one summary per returned constant  (`if self._skip_foreign_chunk(h): continue`)
        from .cfg import leaves_only
        if out.fall is None and run.ret_states and set(run.ret_states) <= {True, False} and leaves_only(f.node.body):
            for rv, stt in run.ret_states.items():
                s.by_ret[rv] = self._summary_from_state(f, run, stt)
        # a function that returns a position of one of its stream parameters
        if out.fall is None and run.ret_pos and all(p is not None for p in run.ret_pos):
            k0 = run.ret_pos[0][0]
            if all(p[0] == k0 for p in run.ret_pos):
                s.ret_pos = (k0, min(p[1] for p in run.ret_pos), max(p[2] for p in run.ret_pos))
        return s

    def _summary_from_state(self, f: Func, run, exit_state) -> Summary:
        s = Summary()
        s.has_seek = run.has_seek
        s.touches = run.touches
        s.wild = run.wild
        s.unresolved = run.unresolved
        if exit_state is None:
            return s
        s.returns = True
        params = {p.arg for p in self.cg._params_of(f)}
        sn = self.cg.self_name(f)
        for key in exit_state.keys():
            root = key.split(".")[0]
            p, a = exit_state.p(key), exit_state.a(key)
            if root in params or (sn is not None and root == sn):
                s.keys[key] = (p[0], p[1], a)
                if exit_state.kend.get(key, -INF) > -INF:
                    s.kend[key] = exit_state.kend[key]
                if key in exit_state.absp:
                    s.abs[key] = exit_state.absp[key]
                if key in exit_state.relp:
                    s.rel[key] = exit_state.relp[key]
                if not (root in params and "." not in key) and p[0] < 0 and key not in exit_state.absp and key not in exit_state.relp:
                    # a stream held in an object (self.x / param.x) may end before where it was
                    s.wild = True
            elif self.is_fresh_local(root, f):
                continue
            else:
                if p[0] < 0:
                    s.wild = True
        if f.name == "__init__" and sn is not None:
            for name, (key, lo, hi) in exit_state.saved.items():
                if name.startswith(sn + ".") and key.split(".")[0] in params and "." not in key:
                    attr = name[len(sn) + 1:]
                    if "." not in attr and f.cls is not None and self._stored_only_in_init(f.cls, attr):
                        s.facts[attr] = (key, lo, hi)
        return s

    def _stored_only_in_init(self, cls, attr):
        return all(m.name == "__init__" for m, *_ in self.b._stores(cls, attr))

    # ------------------------------------------------------------------ loop bodies
    def loop_effect(self, f: Func, loop, counters=None, collections=None, oracle=None, inv_test=None, cut=None):
        """abstract effect of ONE iteration of `loop` (ast.While / ast.For / comprehension parent):
        -> (state at the back edge or None if the body never reaches it, run object).  Base point:
        the loop head (position when the test / next() is evaluated)."""
        run = _Run(self, f)
        run.counters = dict(counters or {})
        run.collections = set(collections or ())
        run.oracle = oracle
        run.inv_test = inv_test
        run.cut = set(cut or ())
        st = SState()
        if isinstance(loop, ast.While):
            st = run.expr(loop.test, st)
            tr = run._truthy_read(loop.test) if st is not None else None
            if tr is not None:
                st = run._refine_nonempty(st, tr[2])
            out = run.block(loop.body, st)
            back = s_join(out.fall, out.cont)
            if back is not None:
                back = run.guard_refines_back_edge(loop.test, back)
        elif isinstance(loop, (ast.For, ast.AsyncFor)):
            cb = run.callable_iter(loop.iter)
            if cb is not None and run._sentinel_read_iter(loop.iter) is None:
                st = run.expr(cb, st)
            out = run.block(loop.body, st) if st is not None else Out()
            back = s_join(out.fall, out.cont)
        else:
            raise AnalysisError("loop_effect: unsupported loop node %s" % type(loop).__name__)
        return back, run, out

    def comp_effect(self, f: Func, comp_expr, gen_index=0, oracle=None):
        """one iteration of generator `gen_index` of a comprehension expression"""
        run = _Run(self, f)
        run.oracle = oracle
        st = run.comp_body(comp_expr, gen_index, SState())
        return st, run


class _Run:
    """one abstract execution of a function body (or of one loop iteration)"""

    MAX_ITER = 6

    def __init__(self, sa: StreamAnalysis, f: Func):
        self.sa = sa
        self.f = f
        self.cg = sa.cg
        self.b = sa.b
        self.has_seek = False
        self.touches = False
        self.wild = False
        self.unresolved = []
        self.unknown_calls = []  # calls of computed values (nothing is known about the callee)
        self.call_states = []   # (call node, target Func, state before, {callee key: caller key})
        self.lows = []          # stack of {key: lowest lo seen} trackers (try bodies)
        self.accs = []          # stack of [state] accumulators (try bodies)
        self.seek_events = 0
        self.seen_states = {}   # id(node) -> joined state before the node (on demand via sa.hooks)
        self._read_before = {}  # id(read call) -> (key, position interval before the read) of the latest evaluation
        self._fkeys = None
        self.executed = []      # statements the abstract run went through (in order, with repetitions)
        self.zero_callees = []     # (callee, its stream key) whose summary allows, but does not prove, that nothing is consumed
        self.unchecked_reads = []  # read calls whose result was not (yet) known to be non-empty when they were executed
        self._exec_ids = None
        self.loose = []         # events after which positions are no longer exact knowledge (reasons, for the verdict policy)
        self.oracle = None      # PathOracle: follow ONE branch of every `if` that is not inside an inner loop
        self.loop_depth = 0
        self.inv_test = None    # callable(expr) -> bool: expr is invariant for the loop under analysis
        self.ret_states = {}    # constant returned (True/False/None, '?' otherwise) -> joined state at those returns
        self.ret_pos = []       # per return statement: the returned value as a position (key, lo, hi) or None
        self.cut = set()        # id(stmt): the path ends here (treated like raise)
        self.break_after = set()  # id(stmt): after this statement the enclosing loop is left (its guard has become false)
        self.assume_true = set()  # id(test expr): loops/ifs with this test never take the false edge
        self.skip_calls = set()   # id(call): the call is treated as having no stream effect
        self.counters = {}      # local name -> True if a guard guarantees name >= 1 at the loop head (shrinking updates allowed)
        self.collections = set()  # expression texts whose length is tracked as pseudo key '#len:<text>'

    # ------------------------------------------------------------------ state updates
    def _setpos(self, st, key, p):
        st.pos[key] = p
        st.tok[key] = _new_token()
        st.absp.pop(key, None)
        st.inv.pop(key, None)
        st.relp.pop(key, None)
        for lw in self.lows:
            lw[key] = min(lw.get(key, INF), p[0])

    def _advance(self, st, key, d, low=None):
        p = st.p(key)
        ab = st.absp.get(key)
        iv_ = st.inv.get(key)
        rl_ = st.relp.get(key)
        if low is not None:
            for lw in self.lows:
                lw[key] = min(lw.get(key, INF), p[0] + low)
        self._setpos(st, key, iv_add(p, d))
        if ab is not None:
            st.absp[key] = (ab[0], ab[1] + d[0], ab[2] + d[1])
        if iv_ is not None:
            st.inv[key] = iv_   # reading / stepping from an invariant position is the same in every iteration
        if rl_ is not None:
            st.relp[key] = (rl_[0], rl_[1], rl_[2] + d[0], rl_[3] + d[1])

    def _kill(self, st, text):
        """`text` (a name or dotted attribute) is re-bound"""
        for n in list(st.saved):
            if n == text or n.startswith(text + "."):
                del st.saved[n]
        for k in list(st.keys()):
            if k == text or k.startswith(text + "."):
                if not k.startswith("#"):
                    self.loose.append("`%s` is re-bound" % k)
                self._setpos(st, k, TOP)
        for k in list(st.kend):
            if k == text or k.startswith(text + "."):
                del st.kend[k]
        if text in self.counters:
            self._setpos(st, "#" + text, TOP)
        for c in self.collections:
            if c == text or c.startswith(text + ".") or c.startswith(text + "["):
                self._setpos(st, "#len:" + c, TOP)

    # ------------------------------------------------------------------ position values
    def pos_value(self, e, st, subst=None):
        """e evaluates to base_position(key) + [lo, hi] -> (key, lo, hi) or None.
        subst = (self_name, receiver_text, Cls, Func) when e comes from a property body."""
        f = subst[3] if subst else self.f
        if isinstance(e, ast.Call) and isinstance(e.func, ast.Attribute) and e.func.attr == "tell" and not e.args and subst is None \
                and self.sa.is_stream_recv(e.func.value, f):
            key = self.sa.key_of(e.func.value, f)
            if key is not None:
                p = st.p(key)
                return (key, p[0], p[1])
            return None
        if isinstance(e, ast.Call) and subst is None and not (isinstance(e.func, ast.Attribute) and e.func.attr in STREAM_METHODS
                                                             and self.sa.is_stream_recv(e.func.value, f)):
            # a repository function that returns a position of a stream it was given / holds  (`self.tell()`)
            ts, kind = self.cg.resolve_call(e, f)
            ts = [t for t in ts if t.name != "__new__"]
            if len(ts) == 1 and kind in ("direct", "typed", "super"):
                summ = self.sa.summaries.get(id(ts[0].node))
                if summ is not None and summ.ret_pos is not None and summ.returns:
                    ckey = summ.ret_pos[0]
                    root = ckey.split(".")[0]
                    rest = ckey[len(root):]
                    k = None
                    sn = self.cg.self_name(ts[0])
                    if sn is not None and root == sn:
                        recv = self._receiver_text(e, ts[0], kind)
                        k = recv + rest if recv is not None else None
                    else:
                        a = self._arg_for_param(e, ts[0], root, kind)
                        at = self.sa.key_of(a, f) if isinstance(a, (ast.Name, ast.Attribute)) else None
                        k = at + rest if at is not None else None
                    # the callee must not have moved the stream itself (a pure position query)
                    eff = summ.keys.get(ckey)
                    if k is not None and (eff is None or (eff[0], eff[1]) == (0, 0)):
                        p = st.p(k)
                        return (k, p[0] + summ.ret_pos[1], p[1] + summ.ret_pos[2])
            return None
        if isinstance(e, (ast.Name, ast.Attribute)):
            d = dotted(e)
            if d is None:
                return None
            if subst is not None:
                if d == subst[0] or d.startswith(subst[0] + "."):
                    d = subst[1] + d[len(subst[0]):]
                else:
                    return None
            else:
                d2 = self.sa.key_of(e, f)
                if d2 in st.saved:
                    d = d2
            if d in st.saved:
                return st.saved[d]
            # a property of an object with known position facts:  h.end -> self.start + self.size
            if isinstance(e, ast.Attribute):
                if subst is not None:
                    recv_text, cls = None, None
                    if isinstance(e.value, ast.Name) and e.value.id == subst[0]:
                        recv_text, cls = subst[1], subst[2]
                else:
                    recv_text = self.sa.key_of(e.value, f)
                    cls = self.cg.type_of(e.value, f)
                if recv_text is not None and isinstance(cls, Cls):
                    pm = self.cg.getter(cls, e.attr)
                    if pm is not None:
                        rets = [n for n in own_nodes(pm.node) if isinstance(n, ast.Return)]
                        sn = self.cg.self_name(pm)
                        if len(rets) == 1 and rets[0].value is not None and sn is not None and len(pm.node.body) <= 2:
                            return self.pos_value(rets[0].value, st, (sn, recv_text, cls, pm))
            return None
        if isinstance(e, ast.BinOp) and isinstance(e.op, ast.Sub) and subst is None:
            pb = self._pushback(e, st)
            if pb is not None:
                return pb
        if isinstance(e, ast.BinOp) and isinstance(e.op, (ast.Add, ast.Sub)):
            l = self.pos_value(e.left, st, subst)
            if l is not None:
                d = self._int(e.right, subst)
                if d[0] == -INF and d[1] == INF:
                    return None   # nothing is known about the offset
                if isinstance(e.op, ast.Sub):
                    d = iv_neg(d)
                return (l[0], l[1] + d[0], l[2] + d[1])
            if isinstance(e.op, ast.Add):
                r = self.pos_value(e.right, st, subst)
                if r is not None:
                    d = self._int(e.left, subst)
                    return (r[0], r[1] + d[0], r[2] + d[1])
        return None

    def _piece_of_read(self, x, depth=0):
        """x is (part of) the bytes a read returned: -> (name of the read result z, bytes certainly NOT in x) else None.
        Understood: z itself, z[i:], z.split(SEP, 1)[1] (SEP non-empty: the piece after the first separator),
        elements of z.split/partition/rpartition bound by tuple unpacking or subscript, names bound to such pieces."""
        f = self.f
        if depth > 3:
            return None
        if isinstance(x, ast.Name):
            # a tuple-unpacked element:  head, sep, tail = z.partition(SEP)
            n = x
            dd = self.cg.dominating_def(x, f)
            if dd is not None:
                r = self._piece_of_read(dd, depth + 1)
                if r is not None:
                    return r
                if isinstance(dd, ast.Call) and isinstance(dd.func, ast.Attribute) and dd.func.attr == "read":
                    return (x.id, 0)
            for st_ in own_nodes(f.node):
                if isinstance(st_, ast.Assign) and len(st_.targets) == 1 and isinstance(st_.targets[0], (ast.Tuple, ast.List)) \
                        and any(isinstance(t, ast.Name) and t.id == x.id for t in st_.targets[0].elts):
                    v = st_.value
                    if isinstance(v, ast.Call) and isinstance(v.func, ast.Attribute) and v.func.attr in ("partition", "rpartition", "split", "rsplit") \
                            and isinstance(v.func.value, ast.Name) and len(self.cg._assignments_to_name(f, x.id)) == 1:
                        return (v.func.value.id, 0)
            return None
        if isinstance(x, ast.Subscript) and isinstance(x.value, ast.Name):
            if isinstance(x.slice, ast.Slice):
                r = self._piece_of_read(x.value, depth + 1)
                return r
            sdef = self.cg.dominating_def(x.value, f)
            if isinstance(sdef, ast.Call) and isinstance(sdef.func, ast.Attribute) and sdef.func.attr in ("split", "rsplit", "partition", "rpartition") \
                    and isinstance(sdef.func.value, ast.Name):
                removed = 0
                if sdef.func.attr == "split" and len(sdef.args) == 2 and isinstance(sdef.args[1], ast.Constant) and sdef.args[1].value == 1 \
                        and isinstance(x.slice, ast.Constant) and x.slice.value in (1, -1):
                    sep = self.b.fold(sdef.args[0], f)
                    if isinstance(sep, (bytes, str)) and len(sep) >= 1:
                        removed = len(sep)   # s[1] exists only if the separator was found
                return (sdef.func.value.id, removed)
        return None

    def _pushback(self, e, st):
        """`P - len(x)` where P is the position right after `z = S.read(n)` (a saved `S.tell()` or `S.tell()` itself)
        and x is a piece of z: un-reading the rest of a chunk.  The value is >= position before the read
        (+ len(SEP) for the piece after the first separator of `z.split(SEP, 1)`)."""
        f = self.f
        P, r = e.left, e.right
        if not (isinstance(r, ast.Call) and isinstance(r.func, ast.Name) and r.func.id == "len" and len(r.args) == 1):
            return None
        pc = self._piece_of_read(r.args[0])
        if pc is None:
            return None
        z, removed = pc
        rp = st.saved.get("@read:" + z)
        if rp is None:
            return None
        if isinstance(P, ast.Name):
            pv = st.saved.get(P.id)
            ptok = st.stok.get(P.id)
        elif isinstance(P, ast.Call) and isinstance(P.func, ast.Attribute) and P.func.attr == "tell" and not P.args \
                and self.sa.key_of(P.func.value, f) == rp[0]:
            p = st.p(rp[0])
            pv = (rp[0], p[0], p[1])
            ptok = st.tok.get(rp[0], 0)
        else:
            return None
        if pv is None or rp[0] != pv[0]:
            return None
        if st.stok.get("@read:" + z) is None or st.stok.get("@read:" + z) != ptok:
            return None  # the stream moved between the read and the tell()
        return (pv[0], rp[1] + removed, pv[2])

    def _int(self, e, subst=None):
        n0 = len(self.b.loose_hits)
        if subst is None:
            r = self.b.eval(e, self.f)
        else:
            r = self.b.eval(e, subst[3], 0, (subst[0], subst[2]))
        if len(self.b.loose_hits) > n0:
            self.loose.append("bounds of %s are an over-approximation (its constructor guards are not fully understood)" % self.b.loose_hits[-1])
        return r

    def _predicate_branches(self, test, st):
        """`if H(...)` / `if not H(...)` with H a repository predicate that has one summary per returned constant
        -> (state on the true branch, state on the false branch) (None where that outcome is impossible)"""
        neg = False
        t = test
        if isinstance(t, ast.UnaryOp) and isinstance(t.op, ast.Not):
            t, neg = t.operand, True
        if not isinstance(t, ast.Call):
            return None
        ts, kind = self.cg.resolve_call(t, self.f)
        if len([x for x in ts if x.name != "__new__"]) != 1 or kind not in ("direct", "typed", "super"):
            return None
        tgt = [x for x in ts if x.name != "__new__"][0]
        k = id(tgt.node)
        summ = self.sa.summaries.get(k)
        if summ is None:
            if k in self.sa._in_progress:
                return None
            summ = self.sa.summary(tgt)
        if not summ.by_ret:
            return None
        fn = t.func
        cur = st
        if isinstance(fn, ast.Attribute):
            cur = self.expr(fn.value, cur)
        for a in t.args:
            cur = self.expr(a.value if isinstance(a, ast.Starred) else a, cur)
        for kw in t.keywords:
            cur = self.expr(kw.value, cur)
        if cur is None:
            return (None, None)
        res = {}
        for rv in (True, False):
            sm = summ.by_ret.get(rv)
            res[rv] = self._apply_summary(t, tgt, kind, sm, cur.copy()) if sm is not None else None
        return (res[False], res[True]) if neg else (res[True], res[False])

    def _empty_read_test(self, ifs: ast.If):
        """`ifs` directly follows `z = S.read(N)` and tests the length of z -> (key, True if the TRUE branch is the
        short/empty case, k) where k >= 1 bytes are certainly consumed on the other branch; None if not such a test.
        The refinement is applied to the long branch only, so it is irrelevant what the short branch does."""
        p = parent(ifs)
        prev = None
        for fld in ("body", "orelse", "finalbody"):
            lst = getattr(p, fld, None)
            if isinstance(lst, list) and any(x is ifs for x in lst):
                i = [k for k, x in enumerate(lst) if x is ifs][0]
                if i > 0:
                    prev = lst[i - 1]
        if not (isinstance(prev, ast.Assign) and len(prev.targets) == 1 and isinstance(prev.targets[0], ast.Name)):
            return None
        rd = self.sa._as_read(prev.value, self.f)
        if rd is None or rd[2] is None:
            return None
        z = prev.targets[0].id
        nexpr = rd[1]
        # whatever the requested size: a non-empty result means >= 1 byte was consumed, an empty one leaves
        t = ifs.test
        neg = False
        if isinstance(t, ast.UnaryOp) and isinstance(t.op, ast.Not):
            t, neg = t.operand, True
        isz = lambda x: isinstance(x, ast.Name) and x.id == z
        islen = lambda x: isinstance(x, ast.Call) and isinstance(x.func, ast.Name) and x.func.id == "len" and len(x.args) == 1 and isz(x.args[0])
        empty_const = lambda x: isinstance(x, ast.Constant) and x.value in (b"", "")
        res = None      # (true branch is the short case, k)
        if isz(t) or islen(t):
            res = (False, 1)
        elif isinstance(t, ast.Compare) and len(t.ops) == 1:
            l, r, op = t.left, t.comparators[0], t.ops[0]
            if islen(r) and not islen(l):
                l, r = r, l
                op = {ast.Lt: ast.Gt, ast.LtE: ast.GtE, ast.Gt: ast.Lt, ast.GtE: ast.LtE}.get(type(op), type(op))()
            if islen(l):
                if ast.dump(r) == ast.dump(nexpr):
                    b = self.b.eval(nexpr, self.f)
                else:
                    b = self.b.eval(r, self.f)
                c = b[0] if b[0] > -INF else 0
                if isinstance(op, ast.Lt):
                    res = (True, c)
                elif isinstance(op, ast.LtE):
                    res = (True, c + 1)
                elif isinstance(op, ast.NotEq):
                    res = (True, c) if c >= 1 else ((False, 1) if b == (0, 0) else None)
                elif isinstance(op, ast.Eq):
                    res = (False, c) if c >= 1 else ((True, 1) if b == (0, 0) else None)
                elif isinstance(op, ast.GtE):
                    res = (False, c)
                elif isinstance(op, ast.Gt):
                    res = (False, c + 1)
            elif isz(l) and empty_const(r) and self.sa.empty_literal_matches(r, rd[2].func.value, self.f) is True:
                # only when the literal has the type that read() returns: b'' != '' never ends anything
                if isinstance(op, ast.Eq):
                    res = (True, 1)
                elif isinstance(op, ast.NotEq):
                    res = (False, 1)
        if res is None or res[1] < 1 or res[1] == INF:
            return None
        short_true, k = res
        if neg:
            short_true = not short_true
        return (rd[0], short_true, int(k))

    def read_result_is_inert(self, rcall, on_path=True):
        """the bytes returned by this (unchecked) read are only stored / accumulated / searched / length-tested in ways
        this analysis understands -- nothing that could reject a short result behind our back (indexing `z[0]`,
        `ord`, an unknown callee ...).  Needed before a read may count as *definitely* unchecked.
        on_path: only uses in statements this run executed count (the run followed one syntactic path)."""
        self._exec_ids = set(id(x) for x in self.executed) if on_path else None
        try:
            return self._inert_use(rcall, 0)
        finally:
            self._exec_ids = None

    def _on_path(self, node):
        if self._exec_ids is None:
            return True
        n = node
        while n is not None and not isinstance(n, ast.stmt):
            n = parent(n)
        return n is None or id(n) in self._exec_ids

    @staticmethod
    def _guarded_by_truth(node, name):
        """node sits in the body of an `X if name else Y` / `if name:` / `if len(name) ...:` whose test mentions name"""
        n = node
        while n is not None:
            p = parent(n)
            if isinstance(p, ast.IfExp) and p.body is n and any(isinstance(x, ast.Name) and x.id == name for x in ast.walk(p.test)):
                return True
            if isinstance(p, ast.If) and any(y is n for y in p.body) and any(isinstance(x, ast.Name) and x.id == name for x in ast.walk(p.test)):
                return True
            if isinstance(p, (ast.FunctionDef, ast.AsyncFunctionDef)):
                return False
            n = p
        return False

    _INERT_METHODS = ("split", "rsplit", "partition", "rpartition", "startswith", "endswith", "find", "rfind", "count", "strip",
                      "rstrip", "lstrip", "hex", "decode", "replace", "join", "lower", "upper")
    _INERT_SINKS = ("append", "extend", "add", "write", "update", "insert", "appendleft", "put", "setdefault")
    _INERT_FUNCS = ("len", "any", "all", "bytes", "bytearray", "repr", "str", "print", "isinstance", "memoryview", "list", "tuple", "id", "hash")

    def _inert_use(self, node, depth):
        if depth > 6:
            return False
        p = parent(node)
        if p is None:
            return False
        if isinstance(p, ast.Expr):
            return True
        if isinstance(p, (ast.Return, ast.Yield)):
            return True
        if isinstance(p, ast.Lambda) and p.body is node:
            # iter(lambda: S.read(n), SENTINEL): the value becomes the loop variable
            pp = parent(p)
            ppp = parent(pp) if pp is not None else None
            if isinstance(pp, ast.Call) and isinstance(pp.func, ast.Name) and pp.func.id == "iter" and pp.args and pp.args[0] is p \
                    and isinstance(ppp, (ast.For, ast.comprehension)) and ppp.iter is pp and isinstance(ppp.target, ast.Name):
                return self._name_uses_inert(ppp.target.id, self.f, depth + 1)
            return False
        if isinstance(p, (ast.Tuple, ast.List, ast.Set, ast.Dict, ast.Starred, ast.FormattedValue, ast.JoinedStr, ast.keyword)) and not isinstance(p, ast.keyword):
            return self._inert_use(p, depth + 1)
        if isinstance(p, (ast.ListComp, ast.SetComp, ast.GeneratorExp, ast.DictComp)):
            return True   # collected
        if isinstance(p, ast.Compare):
            return True
        if isinstance(p, ast.BoolOp) or (isinstance(p, ast.UnaryOp) and isinstance(p.op, ast.Not)):
            return True
        if isinstance(p, (ast.If, ast.While, ast.IfExp)) and getattr(p, "test", None) is node:
            return True
        if isinstance(p, ast.BinOp) and isinstance(p.op, (ast.Add, ast.Mod)):
            return self._inert_use(p, depth + 1) if isinstance(p.op, ast.Add) else True
        if isinstance(p, ast.Subscript) and p.value is node:
            if isinstance(p.slice, ast.Slice):
                return self._inert_use(p, depth + 1)
            # z[0]: raises on an empty result unless the code has just checked z
            return isinstance(node, ast.Name) and self._guarded_by_truth(p, node.id)
        if isinstance(p, ast.Attribute) and p.value is node:
            pp = parent(p)
            if isinstance(pp, ast.Call) and pp.func is p and p.attr in self._INERT_METHODS:
                return True if p.attr in ("startswith", "endswith", "find", "rfind", "count") else self._inert_use(pp, depth + 1)
            return False
        if isinstance(p, ast.Call):
            fn = p.func
            if node is fn:
                return False
            if isinstance(fn, ast.Name) and fn.id in self._INERT_FUNCS and fn.id not in self.b._local_names(self.f):
                return True if fn.id in ("len", "any", "all", "print", "isinstance", "id", "hash", "repr", "str") else self._inert_use(p, depth + 1)
            if isinstance(fn, ast.Attribute) and fn.attr in self._INERT_SINKS:
                return True
            if isinstance(fn, ast.Attribute) and ast.unparse(fn).startswith(("logger.", "logging.")):
                return True
            if ast.unparse(fn) == "int.from_bytes":
                return True   # accepts any length (b'' -> 0)
            r = self.cg.resolve_callable(fn, self.f)
            if r is not None and r[0] == "external" and r[1] in ("io.BytesIO", "BytesIO", "io.BufferedReader"):
                return True   # a sub-stream: its own reads are analysed where they happen
            if self.sa.checked_read(p, self.f) is not None or CallGraph._is_unpack_call(p):
                return True   # accounted for as (un)checked unpack
            ts, kind = self.cg.resolve_call(p, self.f)
            if ts and kind in ("direct", "ctor", "typed", "super", "table", "hof") and depth <= 2:
                # a repository callee: its parameter must be used inertly as well
                for t in ts:
                    if t.name == "__new__":
                        continue
                    pn = self._param_receiving(p, t, kind, node)
                    if pn is None or not self._param_inert(t, pn, depth + 1):
                        return False
                return True
            return False
        if isinstance(p, (ast.Assign, ast.AnnAssign, ast.NamedExpr, ast.AugAssign)):
            tgts = p.targets if isinstance(p, ast.Assign) else [p.target]
            if isinstance(p, ast.AugAssign):
                return True    # acc += z
            for t in tgts:
                if isinstance(t, ast.Name):
                    if not self._name_uses_inert(t.id, self.f, depth + 1, after=p):
                        return False
                elif isinstance(t, (ast.Attribute, ast.Subscript)):
                    continue    # stored
                else:
                    return False   # tuple unpacking of the raw bytes: `a, b = f.read(2)` raises on short data
            if isinstance(p, ast.NamedExpr):
                return self._inert_use(p, depth + 1)
            return True
        if isinstance(p, ast.withitem):
            return True
        return False

    def _name_uses_inert(self, name, f, depth, after=None):
        key = ("inert", id(f.node), name)
        cache = self.sa.__dict__.setdefault("_inert_cache", {})
        if key in cache and (self._exec_ids is None or f is not self.f):
            return cache[key]
        cache[key] = True
        ok = True
        for n in own_nodes(f.node):
            if isinstance(n, ast.Name) and n.id == name and isinstance(n.ctx, ast.Load):
                if f is self.f and not self._on_path(n):
                    continue
                if not self._inert_use(n, depth):
                    ok = False
                    break
        if self._exec_ids is None or f is not self.f:
            cache[key] = ok
        else:
            cache.pop(key, None)   # path dependent: not cacheable
        return ok

    def _param_receiving(self, call, tgt, kind, node):
        ps = [a.arg for a in tgt.node.args.posonlyargs + tgt.node.args.args]
        for pn in ps:
            if self._arg_for_param(call, tgt, pn, kind) is node:
                return pn
        return None

    def _param_inert(self, tgt, pname, depth):
        r2 = _Run(self.sa, tgt)
        return r2._name_uses_inert(pname, tgt, depth)

    def _counter_delta(self, name, value, depth=0):
        """value assigned to counter `name`, as a delta interval relative to its old value (None: unknown)"""
        isv = lambda x: isinstance(x, ast.Name) and x.id == name
        # `v = S.seek(E)` (absolute) returns E;  `v = other` with other := v + ... defined just before
        if isinstance(value, ast.Call) and isinstance(value.func, ast.Attribute) and value.func.attr == "seek" and len(value.args) == 1 \
                and self.sa.is_stream_recv(value.func.value, self.f) and depth < 3:
            return self._counter_delta(name, value.args[0], depth + 1)
        if isinstance(value, ast.Name) and not isv(value) and depth < 3 and parent(value) is not None:
            dd = self.cg.dominating_def(value, self.f)
            if dd is not None:
                return self._counter_delta(name, dd, depth + 1)
            return None
        # a sum in which the counter occurs exactly once:  v + a + b
        if isinstance(value, ast.BinOp) and isinstance(value.op, ast.Add):
            terms, stack = [], [value]
            while stack:
                x = stack.pop()
                if isinstance(x, ast.BinOp) and isinstance(x.op, ast.Add):
                    stack += [x.left, x.right]
                else:
                    terms.append(x)
            if sum(1 for t in terms if isv(t)) == 1 and not any(isinstance(n, ast.Name) and n.id == name for t in terms if not isv(t) for n in ast.walk(t)):
                d = ZERO
                for t in terms:
                    if not isv(t):
                        d = iv_add(d, self._int(t))
                return d
        if isinstance(value, ast.BinOp):
            if isinstance(value.op, ast.Add):
                if isv(value.left):
                    return self._int(value.right)
                if isv(value.right):
                    return self._int(value.left)
            if isinstance(value.op, ast.Sub) and isv(value.left):
                return iv_neg(self._int(value.right))
            if isinstance(value.op, (ast.RShift, ast.FloorDiv)) and isv(value.left) and self.counters.get(name):
                k = self._int(value.right)
                need = 1 if isinstance(value.op, ast.RShift) else 2
                if k[0] >= need:
                    return (-INF, -1)
        if isinstance(value, ast.Subscript) and isv(value.value) and isinstance(value.slice, ast.Slice) and self.counters.get(name):
            # v = v[k:]  -- the length shrinks by k (guard: v is non-empty)
            sl = value.slice
            if sl.upper is None and sl.step is None and sl.lower is not None:
                k = self._int(sl.lower)
                if k[0] >= 1:
                    return (-INF, -1)
        return None

    GROW = ("append", "extend", "insert", "add", "update", "setdefault", "appendleft", "extendleft", "push")
    SHRINK1 = ("pop", "popitem", "popleft", "remove")

    def _key_from_collection(self, key_expr, coll_text):
        """key_expr is a local name bound only as the (first) target of `for` loops over coll_text / .items() / .keys()"""
        if not isinstance(key_expr, ast.Name):
            return False
        name = key_expr.id
        binds = self.cg._assignments_to_name(self.f, name)
        if any(p.arg == name for p in self.cg._params_of(self.f)):
            return False
        found = False
        for n in own_nodes(self.f.node):
            if isinstance(n, (ast.For, ast.comprehension)):
                tg = n.target
                first = tg.elts[0] if isinstance(tg, (ast.Tuple, ast.List)) and tg.elts else tg
                if isinstance(first, ast.Name) and first.id == name:
                    it = n.iter
                    txt = ast.unparse(it)
                    if txt in (coll_text, coll_text + ".items()", coll_text + ".keys()", "list(%s)" % coll_text,
                               "list(%s.items())" % coll_text, "list(%s.keys())" % coll_text, "sorted(%s)" % coll_text):
                        found = True
                        continue
                    return False
            if isinstance(n, ast.Name) and n.id == name and isinstance(n.ctx, (ast.Store, ast.Del)):
                p = parent(n)
                ok = False
                while p is not None and not isinstance(p, ast.stmt) and not isinstance(p, ast.comprehension):
                    p = parent(p)
                if isinstance(p, (ast.For, ast.comprehension)) and any(x is n for x in ast.walk(p.target)):
                    ok = True
                if not ok:
                    return False
        return found

    def _collection_call(self, e: ast.Call, st):
        fn = e.func
        if not (isinstance(fn, ast.Attribute) and self.collections):
            return st
        d = ast.unparse(fn.value)
        if d in self.collections:
            k = "#len:" + d
            if fn.attr in self.SHRINK1:
                # dict.pop(key, default) does not raise and may remove nothing -- unless the key was taken from the
                # collection itself (`for key, v in C.items(): ...; C.pop(key, None)`)
                soft = fn.attr == "pop" and len(e.args) + len(e.keywords) >= 2 and not self._key_from_collection(e.args[0] if e.args else None, d)
                self._advance(st, k, (-1, 0) if soft else (-1, -1))
            elif fn.attr in self.GROW or fn.attr in ("clear", "discard", "sort", "reverse", "__setitem__", "__delitem__"):
                if fn.attr in ("sort", "reverse"):
                    pass
                elif fn.attr in ("clear", "discard"):
                    self._advance(st, k, (-INF, 0))
                elif fn.attr in ("append", "appendleft", "insert", "push"):
                    self._advance(st, k, (1, 1))
                elif fn.attr in ("add", "setdefault"):
                    self._advance(st, k, (0, 1))
                else:
                    self._advance(st, k, (0, INF))
        return st

    # ------------------------------------------------------------------ statements
    def block(self, stmts, st) -> Out:
        out = Out()
        cur = st
        for s in stmts:
            if cur is None:
                break
            o = self.stmt(s, cur)
            out.brk = s_join(out.brk, o.brk)
            out.cont = s_join(out.cont, o.cont)
            out.ret = s_join(out.ret, o.ret)
            cur = o.fall
        out.fall = cur
        return out

    def _acc(self, st):
        if st is not None:
            for a in self.accs:
                a[0] = s_join(a[0], st.copy())

    def stmt(self, s, st) -> Out:
        hk = self.sa.hooks.get(id(s))
        if hk is not None:
            hk.append(st.copy())
        self._acc(st)
        self.executed.append(s)
        if id(s) in self.cut:
            return Out()
        o = self._stmt(s, st.copy())
        if id(s) in self.break_after and o.fall is not None:
            o = Out(brk=s_join(o.brk, o.fall), cont=o.cont, ret=o.ret)
        for x in (o.fall, o.brk, o.cont, o.ret):
            self._acc(x)
        return o

    def _stmt(self, s, st) -> Out:
        if isinstance(s, ast.Expr):
            return Out(fall=self.expr(s.value, st))
        if isinstance(s, ast.Assign):
            st = self.expr(s.value, st)
            if st is None:
                return Out()
            pv = self.pos_value(s.value, st)
            for t in s.targets:
                if isinstance(t, ast.Name) and t.id in self.counters:
                    d = self._counter_delta(t.id, s.value)
                    old_p = st.p("#" + t.id)
                    st = self._bind(t, s.value, st, pv)
                    self._setpos(st, "#" + t.id, iv_add(old_p, d) if d is not None else TOP)
                    continue
                st = self._bind(t, s.value, st, pv)
            return Out(fall=st)
        if isinstance(s, ast.AnnAssign):
            if s.value is not None:
                st = self.expr(s.value, st)
                if st is None:
                    return Out()
                st = self._bind(s.target, s.value, st, self.pos_value(s.value, st))
            return Out(fall=st)
        if isinstance(s, ast.AugAssign):
            st = self.expr(s.value, st)
            if st is None:
                return Out()
            d = dotted(s.target)
            if isinstance(s.target, ast.Name) and s.target.id in self.counters:
                fake = ast.BinOp(left=ast.Name(id=s.target.id, ctx=ast.Load()), op=s.op, right=s.value)
                dl = self._counter_delta(s.target.id, fake)
                old_p = st.p("#" + s.target.id)
                self._kill(st, d)
                self._setpos(st, "#" + s.target.id, iv_add(old_p, dl) if dl is not None else TOP)
                return Out(fall=st)
            if d is not None:
                old = st.saved.get(d)
                self._kill(st, d)
                if old is not None and isinstance(s.op, (ast.Add, ast.Sub)):
                    dv = self._int(s.value)
                    if isinstance(s.op, ast.Sub):
                        dv = iv_neg(dv)
                    st.saved[d] = (old[0], old[1] + dv[0], old[2] + dv[1])
            else:
                st = self.expr(s.target, st)
            return Out(fall=st)
        if isinstance(s, ast.If):
            pr = self._predicate_branches(s.test, st)
            if pr is not None:
                st_t, st_f = pr
                if self.oracle is not None and self.loop_depth == 0:
                    if self.oracle.next():
                        return self.block(s.body, st_t) if st_t is not None else Out()
                    if st_f is None:
                        return Out()
                    return self.block(s.orelse, st_f) if s.orelse else Out(fall=st_f)
                a = self.block(s.body, st_t) if st_t is not None else Out()
                b = (self.block(s.orelse, st_f) if s.orelse else Out(fall=st_f)) if st_f is not None else Out()
                return Out(s_join(a.fall, b.fall), s_join(a.brk, b.brk), s_join(a.cont, b.cont), s_join(a.ret, b.ret))
            st = self.expr(s.test, st)
            if st is None:
                return Out()
            st_t, st_f = st.copy(), st.copy()
            er = self._empty_read_test(s)
            if er is not None:
                key, when_empty, kk = er
                ne = st_f if when_empty else st_t   # the branch on which the read returned >= kk bytes
                p = ne.p(key)
                if p[0] != -INF:
                    # position was (before + [0, n]); a result of >= kk bytes means that many were consumed,
                    # and the short (EOF) case goes through the other branch: the read is checked
                    if p[0] >= 0:
                        ne.anch[key] = ne.a(key) + kk
                    tk = ne.tok.get(key)
                    self._setpos(ne, key, (p[0] + kk, max(p[1], p[0] + kk)))
                    if tk is not None:
                        ne.tok[key] = tk  # knowledge was refined, the stream did not move
            if self.oracle is not None and self.loop_depth == 0:
                if self.oracle.next():
                    return self.block(s.body, st_t)
                return self.block(s.orelse, st_f) if s.orelse else Out(fall=st_f)
            a = self.block(s.body, st_t)
            b = self.block(s.orelse, st_f) if s.orelse else Out(fall=st_f)
            return Out(s_join(a.fall, b.fall), s_join(a.brk, b.brk), s_join(a.cont, b.cont), s_join(a.ret, b.ret))
        if isinstance(s, ast.While):
            return self._loop(s, st, test=s.test, at_least_once=self._test_true_on_entry(s))
        if isinstance(s, (ast.For, ast.AsyncFor)):
            sr = self._sentinel_read_iter(s.iter)
            if sr is not None:
                return self._sentinel_loop(s, st, sr)
            cb = self.callable_iter(s.iter)
            if cb is not None:
                # == while True: x = <callable>(); if x == SENTINEL: break; body
                st = self._bind(s.target, None, st, None)
                return self._loop(s, st, test=cb)
            st = self.expr(s.iter, st)
            if st is None:
                return Out()
            return self._loop(s, st, target=s.target, at_least_once=self._nonempty_const_range(s.iter))
        if isinstance(s, ast.Return):
            st = self.expr(s.value, st) if s.value is not None else st
            if st is not None and self.loop_depth >= 0:
                rv = "?"
                if s.value is None:
                    rv = None
                elif isinstance(s.value, ast.Constant) and isinstance(s.value.value, (bool, type(None))):
                    rv = s.value.value
                self.ret_states[rv] = s_join(self.ret_states.get(rv), st.copy())
                pv = self.pos_value(s.value, st) if s.value is not None else None
                self.ret_pos.append(pv)
            return Out(ret=st)
        if isinstance(s, ast.Raise):
            return Out()
        if isinstance(s, ast.Break):
            return Out(brk=st)
        if isinstance(s, ast.Continue):
            return Out(cont=st)
        if isinstance(s, ast.Try) or (hasattr(ast, "TryStar") and isinstance(s, ast.TryStar)):
            return self._try(s, st)
        if isinstance(s, (ast.With, ast.AsyncWith)):
            for it in s.items:
                st = self.expr(it.context_expr, st)
                if st is None:
                    return Out()
                if it.optional_vars is not None:
                    st = self._bind(it.optional_vars, None, st, None)
            return self.block(s.body, st)
        if isinstance(s, ast.Assert):
            return Out(fall=self.expr(s.test, st))
        if isinstance(s, ast.Delete):
            for t in s.targets:
                d = dotted(t)
                if d:
                    self._kill(st, d)
                elif isinstance(t, ast.Subscript) and ast.unparse(t.value) in self.collections:
                    self._advance(st, "#len:" + ast.unparse(t.value), (-INF, -1) if isinstance(t.slice, ast.Slice) else (-1, -1))
            return Out(fall=st)
        if isinstance(s, ast.Match):
            st = self.expr(s.subject, st)
            res = Out(fall=st.copy() if st is not None else None)
            for c in s.cases:
                o = self.block(c.body, st.copy())
                res = Out(s_join(res.fall, o.fall), s_join(res.brk, o.brk), s_join(res.cont, o.cont), s_join(res.ret, o.ret))
            return res
        # def / class / import / global / nonlocal / pass
        return Out(fall=st)

    def _bind(self, target, value, st, pv):
        if isinstance(target, (ast.Tuple, ast.List)):
            for t in target.elts:
                st = self._bind(t, None, st, None)
            return st
        if isinstance(target, ast.Starred):
            return self._bind(target.value, None, st, None)
        d = dotted(target)
        if d is None:
            # subscript store etc.: evaluate the pieces
            if isinstance(target, ast.Subscript) and ast.unparse(target.value) in self.collections:
                self._setpos(st, "#len:" + ast.unparse(target.value), TOP)  # may add a key
            return self.expr(target, st)
        d = self.sa.key_of(target, self.f) if d in self.sa.aliases(self.f) else d
        self._kill(st, d)
        st.stok.pop(d, None)
        st.saved.pop("@read:" + d, None)
        st.stok.pop("@read:" + d, None)
        if pv is not None:
            st.saved[d] = pv
            st.stok[d] = st.tok.get(pv[0], 0)
        # `z = S.read(n)`: remember where the chunk started (for the push-back idiom)
        if isinstance(value, ast.Call) and isinstance(target, ast.Name):
            rd = self.sa._as_read(value, self.f)
            if rd is not None and rd[2] is value and id(value) in self._read_before:
                key, before = self._read_before[id(value)]
                st.saved["@read:" + d] = (key, before[0], before[1])
                st.stok["@read:" + d] = st.tok.get(key, 0)
        # constructor position facts:  h = Cls(stream, ...)
        if isinstance(value, ast.Call):
            for (cnode, tgt, before, mapping) in reversed(self.call_states):
                if cnode is value:
                    summ = self.sa.summaries.get(id(tgt.node))
                    if summ is not None and summ.ret_pos is not None:
                        ck = mapping.get(summ.ret_pos[0])
                        if ck is not None:
                            p = before.p(ck)
                            if p[0] != -INF and p[1] != INF:
                                st.saved[d] = (ck, p[0] + summ.ret_pos[1], p[1] + summ.ret_pos[2])
                                st.stok.pop(d, None)
                    if summ is not None and tgt.name == "__init__":
                        for attr, (ckey, lo, hi) in summ.facts.items():
                            ck = mapping.get(ckey)
                            if ck is not None:
                                p = before.p(ck)
                                st.saved[d + "." + attr] = (ck, p[0] + lo, p[1] + hi)
                elif cnode is not value and self.call_states and cnode is not self.call_states[-1][0]:
                    pass
        return st

    @staticmethod
    def callable_iter(it):
        """`iter(lambda: E, SENTINEL)` -> E (evaluated at the start of every iteration and once more when it ends)"""
        if isinstance(it, ast.Call) and isinstance(it.func, ast.Name) and it.func.id == "iter" and len(it.args) == 2 \
                and isinstance(it.args[0], ast.Lambda) and not it.args[0].args.args:
            return it.args[0].body
        return None

    def _sentinel_read_iter(self, it):
        """`iter(lambda: S.read(n), b'')` (or functools.partial(S.read, n)) -> (key, read call or None, n interval)"""
        if isinstance(it, ast.Call) and not (isinstance(it.func, ast.Name) and it.func.id == "iter"):
            return self._chunk_generator(it)
        if not (isinstance(it, ast.Call) and isinstance(it.func, ast.Name) and it.func.id == "iter" and len(it.args) == 2):
            return None
        sent = it.args[1]
        if not (isinstance(sent, ast.Constant) and sent.value in (b"", "")):
            return None
        src = it.args[0]
        # iter(callable, SENTINEL) stops when callable() == SENTINEL: the empty literal must have the type read() returns
        if isinstance(src, ast.Lambda) and not src.args.args:
            rd = self.sa._as_read(src.body, self.f)
            if rd is not None and rd[2] is src.body and self.sa.empty_literal_matches(sent, src.body.func.value, self.f) is True:
                n = self.b.eval(rd[1], self.f)
                return (rd[0], src.body, n if n[0] >= 0 else (0, INF))
        if isinstance(src, ast.Call) and ast.unparse(src.func) in ("partial", "functools.partial") and len(src.args) == 2 \
                and isinstance(src.args[0], ast.Attribute) and src.args[0].attr == "read" and self.sa.is_stream_recv(src.args[0].value, self.f) \
                and self.sa.empty_literal_matches(sent, src.args[0].value, self.f) is True:
            key = self.sa.key_of(src.args[0].value, self.f)
            n = self.b.eval(src.args[1], self.f)
            if key is not None:
                return (key, None, n if n[0] >= 0 else (0, INF))
        return None

    def sentinel_never_matches(self, it):
        """`iter(lambda: S.read(n), <empty literal of the WRONG type>)`: established that the iteration cannot end at EOF"""
        if not (isinstance(it, ast.Call) and isinstance(it.func, ast.Name) and it.func.id == "iter" and len(it.args) == 2):
            return False
        src, sent = it.args
        if isinstance(src, ast.Lambda) and not src.args.args:
            rd = self.sa._as_read(src.body, self.f)
            return rd is not None and rd[2] is src.body and self.sa.empty_literal_matches(sent, src.body.func.value, self.f) is False
        return False

    def _chunk_generator(self, call):
        """call of a repository generator of the shape
               while <c>:  z = P.read(E);  if <z is empty>: return|break;  yield z
           (P a parameter): iterating it is `for z in iter(lambda: S.read(E), b'')` on the argument stream."""
        ts, kind = self.cg.resolve_call(call, self.f)
        if len(ts) != 1 or kind not in ("direct", "typed", "super"):
            return None
        g = ts[0]
        body = [x for x in g.node.body if not (isinstance(x, ast.Expr) and isinstance(x.value, ast.Constant))]
        if len(body) != 1 or not isinstance(body[0], ast.While) or body[0].orelse:
            return None
        lb = body[0].body
        if len(lb) != 3:
            return None
        a, c, y = lb
        if not (isinstance(a, ast.Assign) and len(a.targets) == 1 and isinstance(a.targets[0], ast.Name) and isinstance(a.value, ast.Call)
                and isinstance(a.value.func, ast.Attribute) and a.value.func.attr == "read" and isinstance(a.value.func.value, ast.Name)):
            return None
        z, pname = a.targets[0].id, a.value.func.value.id
        if not (isinstance(y, ast.Expr) and isinstance(y.value, ast.Yield) and isinstance(y.value.value, ast.Name) and y.value.value.id == z):
            return None
        if not (isinstance(c, ast.If) and not c.orelse and len(c.body) == 1 and isinstance(c.body[0], (ast.Return, ast.Break))):
            return None
        t = c.test
        empty = (isinstance(t, ast.UnaryOp) and isinstance(t.op, ast.Not) and isinstance(t.operand, ast.Name) and t.operand.id == z) or \
                (isinstance(t, ast.Compare) and len(t.ops) == 1 and isinstance(t.ops[0], ast.Eq) and isinstance(t.left, ast.Name) and t.left.id == z
                 and self.sa.empty_literal_matches(t.comparators[0], a.value.func.value, g) is True) or \
                (isinstance(t, ast.Compare) and len(t.ops) == 1 and isinstance(t.ops[0], ast.Eq) and isinstance(t.left, ast.Call)
                 and ast.unparse(t.left) == "len(%s)" % z and isinstance(t.comparators[0], ast.Constant) and t.comparators[0].value == 0)
        if not empty:
            return None
        if any(isinstance(n, ast.Name) and n.id == pname and isinstance(n.ctx, ast.Store) for n in ast.walk(g.node)):
            return None
        arg = self._arg_for_param(call, g, pname, kind)
        if not isinstance(arg, (ast.Name, ast.Attribute)):
            return None
        key = self.sa.key_of(arg, self.f)
        if key is None:
            return None
        return (key, None, (0, INF))

    def _sentinel_loop(self, s, st, sr):
        """for z in iter(<read>, b''): ...  ==  while True: z = read(); if z == b'': break (-> else clause); body"""
        key, rcall, n = sr
        self.touches = True
        head = st
        brk = ret = None
        ex = None
        self.loop_depth += 1
        try:
            for i in range(self.MAX_ITER):
                t = head.copy()
                before = t.p(key)
                self._advance(t, key, (0, n[1]))
                ex = s_join(ex, t.copy())          # the read came back empty: the loop ends normally here
                t = self._refine_nonempty(t, key)
                t = self._bind(s.target, None, t, None)
                if isinstance(s.target, ast.Name):
                    t.saved["@read:" + s.target.id] = (key, before[0], before[1])
                    t.stok["@read:" + s.target.id] = t.tok.get(key, 0)
                o = self.block(s.body, t)
                brk = s_join(brk, o.brk)
                ret = s_join(ret, o.ret)
                back = s_join(o.fall, o.cont)
                if back is None:
                    break
                new = s_join(head, back)
                if new == head:
                    break
                head = s_widen(head, new) if i >= 1 else new
            else:
                self.loose.append("inner loop did not stabilise")
                head = s_widen(head, SState({k: TOP for k in head.keys()}, {k: 0 for k in head.keys()}, {}))
                ex = s_join(ex, head)
        finally:
            self.loop_depth -= 1
        if s.orelse and ex is not None:
            o2 = self.block(s.orelse, ex)
            ex = o2.fall
            ret = s_join(ret, o2.ret)
        return Out(fall=s_join(ex, brk), ret=ret)

    def _test_true_on_entry(self, loop: ast.While):
        """the loop test is certainly true the first time: three-valued evaluation with the constants that simple
        assignments directly in front of the loop give to its variables (`found = False; while not found:`)"""
        t = loop.test
        if isinstance(t, ast.Constant):
            return bool(t.value)
        p = parent(loop)
        env = {}
        for fld in ("body", "orelse", "finalbody"):
            lst = getattr(p, fld, None)
            if isinstance(lst, list) and any(x is loop for x in lst):
                i = [k for k, x in enumerate(lst) if x is loop][0]
                names = {n.id for n in ast.walk(t) if isinstance(n, ast.Name)}
                for j in range(i - 1, -1, -1):
                    st_ = lst[j]
                    if isinstance(st_, ast.Assign) and len(st_.targets) == 1 and isinstance(st_.targets[0], ast.Name) \
                            and isinstance(st_.value, ast.Constant):
                        nm = st_.targets[0].id
                        if nm in names and nm not in env:
                            env[nm] = (st_.value.value,)
                        continue
                    if isinstance(st_, (ast.Assign, ast.AnnAssign, ast.AugAssign, ast.Expr)) and not (CallGraph._binds(st_, "") or any(
                            CallGraph._binds(st_, nm) for nm in names)):
                        continue
                    break
        if not env:
            return False
        return _tv3(t, env) is True

    def _nonempty_const_range(self, it):
        if isinstance(it, ast.Call) and isinstance(it.func, ast.Name) and it.func.id == "range" and not it.keywords:
            v = self.b.fold(it, self.f)
            return isinstance(v, list) and len(v) >= 1
        if isinstance(it, (ast.List, ast.Tuple)) and it.elts:
            return True
        if isinstance(it, (ast.Name, ast.Attribute)):
            v = self.b.fold(it, self.f)
            return isinstance(v, (list, tuple, dict, set, frozenset, str, bytes)) and len(v) >= 1
        return False

    def _loop(self, s, st, test=None, target=None, at_least_once=False):
        head = st
        infinite = test is not None and ((isinstance(test, ast.Constant) and bool(test.value)) or id(test) in self.assume_true)
        brk = None
        ret = None
        if at_least_once:
            t = self._bind(target, None, head.copy(), None) if target is not None else head.copy()
            if test is not None:
                t = self.expr(test, t)
                tr = self._truthy_read(test) if t is not None else None
                if tr is not None:
                    t = self._refine_nonempty(t, tr[2])
                if t is None:
                    return Out()
            self.loop_depth += 1
            try:
                o = self.block(s.body, t)
            finally:
                self.loop_depth -= 1
            brk, ret = o.brk, o.ret
            head = s_join(o.fall, o.cont)
            if head is None:
                return Out(fall=brk, ret=ret)
        self.loop_depth += 1
        try:
            return self._loop_inner(s, head, test, target, infinite, brk, ret)
        finally:
            self.loop_depth -= 1

    def guard_refines_back_edge(self, test, back):
        """the loop goes round again only if its guard holds: when a conjunct of the guard says that a name is non-empty
        and that name holds the result of the latest read of its stream (nothing moved the stream since), the read
        returned >= 1 byte -- `block = f.read(n)` at the end of the body, `while block and ...:` at the top."""
        conj = []
        def flat(t):
            if isinstance(t, ast.BoolOp) and isinstance(t.op, ast.And):
                for v in t.values:
                    flat(v)
            else:
                conj.append(t)
        flat(test)
        for c in conj:
            name = None
            if isinstance(c, ast.Name):
                name = c.id
            elif isinstance(c, ast.Call) and isinstance(c.func, ast.Name) and c.func.id == "len" and len(c.args) == 1 and isinstance(c.args[0], ast.Name):
                name = c.args[0].id
            elif isinstance(c, ast.Compare) and len(c.ops) == 1 and isinstance(c.left, ast.Name) and isinstance(c.ops[0], ast.NotEq) \
                    and isinstance(c.comparators[0], ast.Constant) and c.comparators[0].value in (b"", ""):
                rp0 = back.saved.get("@read:" + c.left.id)
                if rp0 is not None and self.sa.empty_literal_matches(c.comparators[0], ast.parse(rp0[0], mode="eval").body, self.f) is True:
                    name = c.left.id
            elif isinstance(c, ast.Compare) and len(c.ops) == 1 and isinstance(c.ops[0], (ast.Gt, ast.GtE)) and isinstance(c.left, ast.Call) \
                    and isinstance(c.left.func, ast.Name) and c.left.func.id == "len" and len(c.left.args) == 1 and isinstance(c.left.args[0], ast.Name) \
                    and isinstance(c.comparators[0], ast.Constant) and c.comparators[0].value == (0 if isinstance(c.ops[0], ast.Gt) else 1):
                name = c.left.args[0].id
            if name is None:
                continue
            rp = back.saved.get("@read:" + name)
            if rp is None:
                continue
            key = rp[0]
            if back.stok.get("@read:" + name) is None or back.stok.get("@read:" + name) != back.tok.get(key, 0):
                continue
            back = self._refine_nonempty(back.copy(), key)
            break
        return back

    def _truthy_read(self, test):
        """loop/if test that is true exactly when a fresh read returned data: `(z := S.read(n))`, `len(z := S.read(n))`,
        `(z := S.read(n)) != b''` -> (name, read call) else None"""
        t = test
        if isinstance(t, ast.Compare) and len(t.ops) == 1 and isinstance(t.ops[0], ast.NotEq) and isinstance(t.comparators[0], ast.Constant) \
                and t.comparators[0].value in (b"", ""):
            inner = t.left
            if not (isinstance(inner, ast.NamedExpr) and isinstance(inner.value, ast.Call) and isinstance(inner.value.func, ast.Attribute)
                    and self.sa.empty_literal_matches(t.comparators[0], inner.value.func.value, self.f) is True):
                return None   # `!= ''` on a bytes stream is always true: it says nothing about the read
            t = inner
        if isinstance(t, ast.Call) and isinstance(t.func, ast.Name) and t.func.id == "len" and len(t.args) == 1:
            t = t.args[0]
        if isinstance(t, ast.NamedExpr) and isinstance(t.target, ast.Name):
            rd = self.sa._as_read(t.value, self.f)
            if rd is not None and rd[2] is t.value:
                return (t.target.id, t.value, rd[0])
        return None

    def _refine_nonempty(self, st, key):
        """the read just performed on `key` returned at least one byte (its empty case leaves): a checked read"""
        p = st.p(key)
        if p[0] != -INF:
            if p[0] >= 0:
                st.anch[key] = st.a(key) + 1
            tk = st.tok.get(key)
            self._setpos(st, key, (p[0] + 1, max(p[1], p[0] + 1)))
            if tk is not None:
                st.tok[key] = tk
        return st

    def _loop_inner(self, s, head, test, target, infinite, brk, ret):
        for i in range(self.MAX_ITER):
            t = head.copy()
            if test is not None:
                t = self.expr(test, t)
                tr = self._truthy_read(test) if t is not None else None
                if tr is not None:
                    t = self._refine_nonempty(t, tr[2])
            if target is not None and t is not None:
                t = self._bind(target, None, t, None)
            if t is None:
                break
            o = self.block(s.body, t)
            brk = s_join(brk, o.brk)
            ret = s_join(ret, o.ret)
            back = s_join(o.fall, o.cont)
            if back is None:
                break
            if test is not None:
                back = self.guard_refines_back_edge(test, back)
            new = s_join(head, back)
            if new == head:
                break
            head = s_widen(head, new) if i >= 1 else new
        else:
            # did not stabilise: give up precision
            self.loose.append("inner loop did not stabilise")
            head = s_widen(head, SState({k: TOP for k in head.keys()}, {k: 0 for k in head.keys()}, {}))
        ex = None
        if not infinite:
            ex = head.copy()
            if test is not None:
                ex = self.expr(test, ex)
            if s.orelse and ex is not None:
                o2 = self.block(s.orelse, ex)
                ex = o2.fall
                brk = s_join(brk, o2.brk)  # break in else belongs to an outer loop; approximated as fallthrough
                ret = s_join(ret, o2.ret)
        return Out(fall=s_join(ex, brk), ret=ret)

    def _try(self, s, st) -> Out:
        self.accs.append([st.copy()])
        self.lows.append({})
        seeks0 = self.seek_events
        body = self.block(s.body, st)
        acc = self.accs.pop()[0]
        low = self.lows.pop()
        # propagate lows to outer trackers
        for lw in self.lows:
            for k, v in low.items():
                lw[k] = min(lw.get(k, INF), v)
        h_in = acc
        if h_in is not None:
            h_in = h_in.copy()
            for k in set(h_in.keys()) | set(low):
                p = h_in.p(k)
                lo = min(p[0], low.get(k, INF))
                hi = INF if self.seek_events != seeks0 else p[1]
                h_in.pos[k] = (lo, hi)
            if self.seek_events != seeks0:
                # positions remembered in variables stay valid; positions of streams do not
                pass
        res = Out(body.fall, body.brk, body.cont, body.ret)
        if s.orelse and res.fall is not None:
            o = self.block(s.orelse, res.fall)
            res = Out(o.fall, s_join(res.brk, o.brk), s_join(res.cont, o.cont), s_join(res.ret, o.ret))
        for h in s.handlers:
            hs = h_in.copy()
            if h.name:
                self._kill(hs, h.name)
            o = self.block(h.body, hs)
            res = Out(s_join(res.fall, o.fall), s_join(res.brk, o.brk), s_join(res.cont, o.cont), s_join(res.ret, o.ret))
        if s.finalbody:
            def fin(x):
                if x is None:
                    return None, Out()
                o = self.block(s.finalbody, x)
                return o.fall, o
            f1, o1 = fin(res.fall)
            b1, o2 = fin(res.brk)
            c1, o3 = fin(res.cont)
            r1, o4 = fin(res.ret)
            extra_ret = None
            for o in (o1, o2, o3, o4):
                extra_ret = s_join(extra_ret, o.ret)
            res = Out(f1, b1, c1, s_join(r1, extra_ret))
        return res

    # ------------------------------------------------------------------ expressions
    def expr(self, e, st):
        if st is None or e is None:
            return st
        hk = self.sa.hooks.get(id(e))
        if hk is not None:
            hk.append(st.copy())
        if isinstance(e, ast.Call):
            return self.call(e, st)
        if isinstance(e, ast.IfExp):
            st = self.expr(e.test, st)
            if st is None:
                return None
            return s_join(self.expr(e.body, st.copy()), self.expr(e.orelse, st.copy()))
        if isinstance(e, ast.BoolOp):
            st = self.expr(e.values[0], st)
            for v in e.values[1:]:
                if st is None:
                    return None
                st = s_join(st, self.expr(v, st.copy()))
            return st
        if isinstance(e, ast.Lambda):
            return st
        if isinstance(e, (ast.ListComp, ast.SetComp, ast.GeneratorExp, ast.DictComp)):
            return self.comp_gen(e, 0, st)
        if isinstance(e, ast.NamedExpr):
            st = self.expr(e.value, st)
            if st is None:
                return None
            return self._bind(e.target, e.value, st, self.pos_value(e.value, st))
        if isinstance(e, (ast.Constant, ast.Name)):
            return st
        for ch in ast.iter_child_nodes(e):
            if isinstance(ch, ast.expr):
                st = self.expr(ch, st)
                if st is None:
                    return None
            elif isinstance(ch, (ast.keyword,)):
                st = self.expr(ch.value, st)
            elif isinstance(ch, ast.FormattedValue):
                st = self.expr(ch.value, st)
            elif isinstance(ch, ast.Slice):
                for x in (ch.lower, ch.upper, ch.step):
                    st = self.expr(x, st)
        return st

    def _comp_elts(self, e):
        if isinstance(e, ast.DictComp):
            return [e.key, e.value]
        return [e.elt]

    def comp_body(self, e, i, st):
        """one iteration of generator i (every path: a failing filter, or the element)"""
        g = e.generators[i]
        t = self._bind(g.target, None, st.copy(), None)
        paths = []
        for c in g.ifs:
            t = self.expr(c, t)
            if t is None:
                break
            paths.append(t.copy())
        if t is not None:
            if i + 1 < len(e.generators):
                t = self.comp_gen(e, i + 1, t)
            else:
                for x in self._comp_elts(e):
                    t = self.expr(x, t)
                    if t is None:
                        break
        res = t
        for p in paths:
            res = s_join(res, p)
        return res

    def comp_gen(self, e, i, st):
        self.loop_depth += 1
        try:
            return self._comp_gen(e, i, st)
        finally:
            self.loop_depth -= 1

    def _comp_gen(self, e, i, st):
        g = e.generators[i]
        st = self.expr(g.iter, st)
        if st is None:
            return None
        head = st
        for k in range(self.MAX_ITER):
            back = self.comp_body(e, i, head)
            if back is None:
                break
            new = s_join(head, back)
            if new == head:
                break
            head = s_widen(head, new) if k >= 1 else new
        else:
            head = s_widen(head, SState({k2: TOP for k2 in head.keys()}, {k2: 0 for k2 in head.keys()}, {}))
        return head

    # ------------------------------------------------------------------ calls
    def call(self, e: ast.Call, st):
        f = self.f
        if id(e) in self.skip_calls:
            return st
        if self.collections:
            st = self._collection_call(e, st)
        cr = self.sa.checked_read(e, f)
        if cr is not None:
            key, n, rcall = cr
            # evaluate the non-read operands (format expression, packer receiver): no stream effects expected
            if rcall is not None:
                for a in rcall.args:
                    st = self.expr(a, st)
                    if st is None:
                        return None
                self.touches = True
                p = st.p(key)
                if p[0] >= 0:
                    st.anch[key] = st.a(key) + n
                if p[0] != -INF:
                    st.kend[key] = max(st.kend.get(key, -INF), p[0] + n)
                self._advance(st, key, (n, self.sa._cr_hi.get(id(e), n)))
                return st
            # `x = S.read(n)` in the immediately preceding statement, then unpack(fmt, x)
            if self._prev_stmt_defines(e):
                p = st.p(key)
                # the earlier unchecked read contributed [0, n]; it is now known to have returned n bytes
                if p[0] >= 0:
                    st.anch[key] = st.a(key) + n
                self._setpos(st, key, (p[0] + n, p[1]))
                return st
        ok_ = self.sa.opaque_unpack(e, f)
        if ok_ is not None:
            self.loose.append("`%s` may or may not be a checked read (format/size not established)" % ast.unparse(e)[:70])
        fn = e.func
        if isinstance(fn, ast.Attribute) and fn.attr in STREAM_METHODS and self.sa.is_stream_recv(fn.value, f):
            key = self.sa.key_of(fn.value, f)
            if key is not None:
                st = self.expr(fn.value, st)
                for a in e.args:
                    st = self.expr(a, st)
                for kw in e.keywords:
                    st = self.expr(kw.value, st)
                if st is None:
                    return None
                st = self._primitive(e, fn.attr, key, st)
                # unknown receiver type: the same spelling may also be a repository method
                ts, kind = self.cg.resolve_call(e, f)
                if ts and kind == "byname":
                    st = s_join(st, self._apply_targets(e, ts, kind, st.copy()))
                return st
        # generic call: receiver, arguments, then the callee's effect
        if isinstance(fn, ast.Attribute):
            st = self.expr(fn.value, st)
        elif not isinstance(fn, ast.Name):
            st = self.expr(fn, st)
        for a in e.args:
            st = self.expr(a.value if isinstance(a, ast.Starred) else a, st)
        for kw in e.keywords:
            st = self.expr(kw.value, st)
        if st is None:
            return None
        ts, kind = self.cg.resolve_call(e, f)
        if kind in ("external", "lambda") or (not ts and kind != "unknown"):
            return self._external(e, st, kind)
        if kind == "unknown" and not ts:
            passed = self._stream_args(e, st)
            self.unknown_calls.append(e)
            self.loose.append("call of a computed value `%s`" % ast.unparse(e)[:60])
            # an object that holds a tracked stream (self -> self.buff) is handed to code we cannot see
            holders = []
            for a in list(e.args) + [kw.value for kw in e.keywords] + ([e.func.value] if isinstance(e.func, ast.Attribute) else []):
                d = dotted(a) if isinstance(a, (ast.Name, ast.Attribute)) else None
                if d:
                    holders.append(d)
            for k in list(st.keys()) + list(self._function_stream_keys()):
                if not k.startswith("#") and any(k.startswith(h + ".") for h in holders) and k not in passed:
                    passed.append(k)
            if passed:
                self.unresolved.append(e)
                for k in passed:
                    self._setpos(st, k, TOP)
            return st
        return self._apply_targets(e, ts, kind, st)

    def _prev_stmt_defines(self, call):
        arg = call.args[1] if (isinstance(call.func, ast.Name) or (isinstance(call.func, ast.Attribute) and isinstance(call.func.value, ast.Name)
                                                                   and call.func.value.id == "struct")) and len(call.args) > 1 else call.args[0]
        if not isinstance(arg, ast.Name):
            return False
        n = call
        while n is not None and not isinstance(n, ast.stmt):
            n = parent(n)
        if n is None:
            return False
        p = parent(n)
        for fld in ("body", "orelse", "finalbody"):
            lst = getattr(p, fld, None)
            if isinstance(lst, list) and any(x is n for x in lst):
                i = [k for k, x in enumerate(lst) if x is n][0]
                if i == 0:
                    return False
                prev = lst[i - 1]
                return isinstance(prev, ast.Assign) and len(prev.targets) == 1 and isinstance(prev.targets[0], ast.Name) \
                    and prev.targets[0].id == arg.id and self.sa._as_read(prev.value, self.f) is not None
        return False

    def _primitive(self, e, meth, key, st):
        self.touches = True
        if meth == "tell":
            return st
        if meth == "read":
            hi = INF
            lo = 0
            self._read_before[id(e)] = (key, st.p(key))
            if e.args:
                b = self.b.eval(e.args[0], self.f)
                if b[0] >= 0 and b[1] < INF:
                    hi = b[1]
                    p = st.p(key)
                    if b[0] == b[1] and p[1] + b[1] <= st.kend.get(key, -INF):
                        lo = b[0]   # the bytes are known to exist: a checked read already got past them
            if lo == 0:
                self.unchecked_reads.append(e)
            self._advance(st, key, (lo, hi))
            return st
        # seek
        self.has_seek = True
        self.seek_events += 1
        whence = None
        if len(e.args) >= 2:
            whence = e.args[1]
        for kw in e.keywords:
            if kw.arg == "whence":
                whence = kw.value
        mode = 0
        if whence is not None:
            txt = ast.unparse(whence)
            v = self.b.fold(whence, self.f)
            if txt.endswith("SEEK_CUR") or (isinstance(v, int) and v == 1):
                mode = 1
            elif txt.endswith("SEEK_SET") or (isinstance(v, int) and v == 0):
                mode = 0
            else:
                mode = 2
        if not e.args:
            self._setpos(st, key, TOP)
            return st
        if mode == 1:
            d = self.b.eval(e.args[0], self.f)
            if d[0] == -INF or d[1] == INF:
                self.loose.append("relative seek by `%s` is not understood" % ast.unparse(e.args[0])[:60])
            self._advance(st, key, d)
            return st
        if mode == 0:
            pv = self.pos_value(e.args[0], st)
            if pv is not None and pv[0] == key:
                self._setpos(st, key, (pv[1], pv[2]))
            else:
                self._setpos(st, key, TOP)
                pt = self._param_target(e.args[0])
                if pt is not None:
                    st.absp[key] = pt
                rp_ = self._rel_param_target(e.args[0], st, key)
                if rp_ is not None:
                    st.relp[key] = rp_
                if self.inv_test is not None and self.inv_test(e.args[0]):
                    st.inv[key] = ast.unparse(e.args[0])
                else:
                    self.loose.append("seek target `%s` is not understood" % ast.unparse(e.args[0])[:60])
            return st
        self._setpos(st, key, TOP)
        self.loose.append("seek relative to the end of the stream")
        return st

    def _param_target(self, e, depth=0):
        """seek target `p`, `p.attr`, `p + c`, `p - c` (p a never re-bound parameter; through local aliases)
        -> (dotted text rooted at the parameter, lo, hi)"""
        base, d = e, ZERO
        if isinstance(e, ast.BinOp) and isinstance(e.op, (ast.Add, ast.Sub)):
            dv = self._int(e.right)
            if dv == TOP or dv[0] == -INF or dv[1] == INF:
                return None
            base, d = e.left, (dv if isinstance(e.op, ast.Add) else iv_neg(dv))
        f = self.f
        if isinstance(base, ast.Name) and not any(p.arg == base.id for p in self.cg._params_of(f)) and depth < 3:
            dd = self.cg.dominating_def(base, f) if parent(base) is not None else None
            if dd is not None:
                r = self._param_target(dd, depth + 1)
                if r is not None:
                    return (r[0], r[1] + d[0], r[2] + d[1])
            return None
        txt = dotted(base) if isinstance(base, (ast.Name, ast.Attribute)) else None
        if txt is None:
            return None
        root = txt.split(".")[0]
        if root == self.cg.self_name(f):
            return None
        if not any(p.arg == root for p in self.cg._params_of(f)) or self.cg._assignments_to_name(f, root):
            return None
        return (txt, d[0], d[1])

    def _rel_param_target(self, e, st, key):
        """seek target `X - p` / `X + p` with X a known position of `key` and p a never re-bound parameter
        -> (p, sign, lo, hi): the new position is base + sign*p + [lo, hi]"""
        if not (isinstance(e, ast.BinOp) and isinstance(e.op, (ast.Add, ast.Sub)) and isinstance(e.right, ast.Name)):
            return None
        pn = e.right.id
        f = self.f
        if not any(p.arg == pn for p in self.cg._params_of(f)) or self.cg._assignments_to_name(f, pn):
            return None
        pv = self.pos_value(e.left, st)
        if pv is None or pv[0] != key:
            return None
        return (pn, 1 if isinstance(e.op, ast.Add) else -1, pv[1], pv[2])

    def _function_stream_keys(self):
        """keys that this function uses as byte streams anywhere (receiver of read/seek/tell, or a parameter
        annotated with an IO type)"""
        if self._fkeys is None:
            ks = set()
            for n in own_nodes(self.f.node):
                if isinstance(n, ast.Call) and isinstance(n.func, ast.Attribute) and n.func.attr in STREAM_METHODS \
                        and self.sa.is_stream_recv(n.func.value, self.f):
                    k = self.sa.key_of(n.func.value, self.f)
                    if k:
                        ks.add(k)
            for p in self.cg._params_of(self.f):
                if p.annotation is not None and "IO" in ast.unparse(p.annotation):
                    ks.add(p.arg)
            # `self.x` is a stream if any method of the class reads / seeks it, or it is bound to a stream constructor
            sn = self.cg.self_name(self.f)
            cls = self.f.cls
            if sn is not None and cls is not None:
                ck = ("stream_attrs", id(cls))
                cache = self.sa.__dict__.setdefault("_stream_attr_cache", {})
                if ck not in cache:
                    attrs = set()
                    for k in cls.mro() + self.cg.subclasses(cls):
                        for m in k.methods.values():
                            msn = self.cg.self_name(m)
                            for n in own_nodes(m.node):
                                if isinstance(n, ast.Call) and isinstance(n.func, ast.Attribute) and n.func.attr in STREAM_METHODS \
                                        and isinstance(n.func.value, ast.Attribute) and isinstance(n.func.value.value, ast.Name) \
                                        and n.func.value.value.id == msn and not isinstance(self.cg.type_of(n.func.value, m), Cls):
                                    attrs.add(n.func.value.attr)
                    cache[ck] = attrs
                for a in cache[ck]:
                    ks.add(sn + "." + a)
            self._fkeys = ks
        return self._fkeys

    def _stream_args(self, e, st):
        out = []
        fk = self._function_stream_keys()
        for a in list(e.args) + [kw.value for kw in e.keywords]:
            if isinstance(a, (ast.Name, ast.Attribute)):
                k = self.sa.key_of(a, self.f)
                if k is not None and (k in st.keys() or k in fk):
                    out.append(k)
        return out

    def _external(self, e, st, kind):
        # a tracked stream handed to code we cannot see may be consumed or repositioned by it
        r = self.cg.resolve_callable(e.func, self.f)
        name = r[1] if r and r[0] == "external" else ast.unparse(e.func)
        harmless = name in ("len", "isinstance", "id", "type", "print", "repr", "str", "hash", "bool") or name.startswith("logger.")
        if not harmless:
            for k in self._stream_args(e, st):
                self._setpos(st, k, TOP)
                self.touches = True
                self.loose.append("stream `%s` handed to code outside the repository (`%s`)" % (k, name))
        return st

    def _arg_for_param(self, e: ast.Call, tgt: Func, pname, kind):
        ps = [p.arg for p in tgt.node.args.posonlyargs + tgt.node.args.args]
        skip = 0
        if kind == "ctor" or (self.cg.is_method(tgt) and kind in ("typed", "byname", "super", "implicit", "hof", "table")):
            skip = 1
        if kind == "direct" and self.cg.is_method(tgt) and isinstance(e.func, ast.Attribute):
            # Class.method(obj, ...) or self.method(...)
            t = self.cg.type_of(e.func.value, self.f)
            r = self.cg.resolve_callable(e.func.value, self.f) if isinstance(e.func.value, ast.Name) else None
            skip = 0 if (r and r[0] == "class") else 1
        if kind == "table":
            skip = 1 if tgt.name == "__init__" else 0
        if kind == "hof":
            skip = 1 if tgt.name == "__init__" else 0
        if kind == "hofb":
            skip = 1 if (self.cg.is_method(tgt) or tgt.name == "__init__") else 0   # a bound method / class: self is implicit
        for kw in e.keywords:
            if kw.arg == pname:
                return kw.value
        if pname in ps:
            i = ps.index(pname) - skip
            if 0 <= i < len(e.args) and not any(isinstance(a, ast.Starred) for a in e.args[: i + 1]):
                return e.args[i]
        return None

    def _receiver_text(self, e: ast.Call, tgt: Func, kind):
        if kind == "ctor" or tgt.name == "__init__" and kind in ("table", "hof"):
            return None
        fn = e.func
        if isinstance(fn, ast.Attribute) and self.cg.is_method(tgt):
            return self.sa.key_of(fn.value, self.f)
        if kind == "implicit":
            # next(x) / len(x) / x[i]
            if isinstance(e, ast.Call) and e.args:
                return self.sa.key_of(e.args[0], self.f)
        return None

    def _apply_targets(self, e, ts, kind, st):
        res = None
        any_summary = False
        for t in ts:
            if t.name == "__new__":
                continue
            k = id(t.node)
            summ = self.sa.summaries.get(k)
            if summ is None:
                if k in self.sa._in_progress:
                    summ = Summary()
                else:
                    summ = self.sa.summary(t)
            any_summary = True
            r = self._apply_summary(e, t, kind, summ, st.copy())
            res = s_join(res, r)
        if not any_summary:
            return st
        return res

    def _apply_summary(self, e, tgt, kind, summ: Summary, st):
        self.has_seek |= summ.has_seek
        self.touches |= summ.touches
        if summ.has_seek:
            self.seek_events += 1
        if summ.unresolved:
            self.unresolved += [e]
            self.loose.append("%s contains an unresolved call" % tgt.qualname)
        sn = self.cg.self_name(tgt)
        mapping = {}
        recv = self._receiver_text(e, tgt, kind)
        for ckey in summ.keys:
            root = ckey.split(".")[0]
            rest = ckey[len(root):]
            if sn is not None and root == sn:
                if recv is not None:
                    mapping[ckey] = recv + rest
                continue
            a = self._arg_for_param(e, tgt, root, kind)
            if a is None:
                continue
            at = self.sa.key_of(a, self.f) if isinstance(a, (ast.Name, ast.Attribute)) else None
            if at is not None:
                mapping[ckey] = at + rest
        self.call_states.append((e, tgt, st.copy(), mapping))
        if not summ.returns:
            return None
        before = st.copy()
        for ckey, (lo, hi, anch, *rest) in summ.keys.items():
            k = mapping.get(ckey)
            if k is None:
                continue
            rl = summ.rel.get(ckey)
            if rl is not None and summ.abs.get(ckey) is None:
                # the callee leaves the stream at (position at the call) + sign*<argument> + [lo, hi]
                a_expr = self._arg_for_param(e, tgt, rl[0], kind)
                pv = None
                if a_expr is not None:
                    here = ast.Call(func=ast.Attribute(value=ast.parse(k, mode="eval").body, attr="tell", ctx=ast.Load()), args=[], keywords=[])
                    synth = ast.BinOp(left=here, op=ast.Add() if rl[1] > 0 else ast.Sub(), right=a_expr)
                    p0 = before.p(k)
                    pv = self._pushback(synth, before) if rl[1] < 0 else None
                    if pv is None:
                        d_ = self._int(a_expr)
                        d_ = d_ if rl[1] > 0 else iv_neg(d_)
                        if d_[0] != -INF or d_[1] != INF:
                            pv = (k, p0[0] + d_[0], p0[1] + d_[1])
                if pv is not None and pv[0] == k:
                    self._setpos(st, k, (pv[1] + rl[2], pv[2] + rl[3]))
                else:
                    self._setpos(st, k, TOP)
                    self.loose.append("effect of %s on `%s` depends on an argument that is not understood" % (tgt.qualname, k))
                continue
            ab = summ.abs.get(ckey)
            if ab is not None:
                # the callee leaves the stream at <argument> + [lo, hi]
                root, _, rest = ab[0].partition(".")
                a_expr = self._arg_for_param(e, tgt, root, kind)
                if a_expr is not None and rest:
                    if isinstance(a_expr, (ast.Name, ast.Attribute)):
                        for part in rest.split("."):
                            a_expr = ast.Attribute(value=a_expr, attr=part, ctx=ast.Load())
                    else:
                        a_expr = None
                pv = self.pos_value(a_expr, before) if a_expr is not None else None
                if pv is not None and pv[0] == k:
                    self._setpos(st, k, (pv[1] + ab[1], pv[2] + ab[2]))
                else:
                    self._setpos(st, k, TOP)
                continue
            low = rest[0] if rest else min(lo, 0)
            ke = summ.kend.get(ckey)
            if ke is not None and before.p(k)[0] != -INF:
                st.kend[k] = max(st.kend.get(k, -INF), before.p(k)[0] + ke)
            if lo == -INF:
                self.loose.append("effect of %s on `%s` is not known" % (tgt.qualname, k))
            elif lo <= 0 < hi:
                self.zero_callees.append((tgt, ckey))   # "may consume nothing" is a lower bound, not an established fact
            p = before.p(k)
            if p[0] >= 0 and anch:
                st.anch[k] = st.a(k) + anch
            self._advance(st, k, (lo, hi), low=low)
        if summ.wild:
            self.wild = True
            self.loose.append("%s may reposition a stream it holds" % tgt.qualname)
            mapped = set(mapping.values())
            for k in list(st.keys()):
                if k in mapped:
                    continue
                if self.sa.is_fresh_local(k.split(".")[0], self.f):
                    continue
                self._setpos(st, k, TOP)
        return st
