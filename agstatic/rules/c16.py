"""C16 -- multi-DEX analysis is independent of how the code is split and ordered.

Decided by abstract execution on model DEX files (agstatic/xref_model.py): `Analysis.__init__`, `Analysis.add`,
`Analysis.create_xref` and everything they call are executed by the shared abstract interpreter (nothing of androguard
is imported or run) on small model DEX objects -- classes, methods, fields, aligned reference pools, instructions with
a concrete opcode, a reference index and a symbolic byte offset.  Then every public xref getter of every analysis
object (and the lookup API) is evaluated the same way and the complete state is compared with the state the property
prescribes for the model, computed independently from the Dalvik opcode table (agstatic/spec/dalvik.py).  Only computed
results are judged, so helper methods, generators, dispatch tables, getattr through name tables, equivalent opcode
tests, get-or-create idioms are all the same to the check; a VIOLATION is a positively computed difference (absent /
unexpected record in an exactly evaluated set, wrong number of analysis objects, the analysed code raises); whatever
the interpreter cannot evaluate is an analysis error (exit 2).

Scenario for C16 (F6): two classes that call each other's methods, read and write each other's fields, instantiate /
reference each other, load a common string and call a common external method are analysed (a) as one DEX, (b) split over
two DEX files added in one order, (c) in the other order -- `add` for each DEX, then one `create_xref`.  Every xref
getter, the lookup API and the number of analysis objects of (b) and (c) must equal (a).
"""
from __future__ import annotations

from ..model import ANALYSIS
from ..xref_model import check_property
from ..xref_engine import (Engine, XrefModel, Exec, Collector, Mut, rule_add_effects, rule_create_xref_driver, rule_xref_effects,
                           rule_layering, rule_recorders_commute, rule_fill_before_xref, run_mutants,
                           m_swap_args, m_set_arg, m_set_receiver, m_rename_call, m_delete_call, m_const, m_replace_src, b_rename_local)

# the thorough tier runs its own in-memory mutation adequacy (MUTANTS / BENIGN below, via xref_engine.run_mutants)
OWN_MUTATION_ADEQUACY = True


def core(sink, eng):
    check_property(sink, eng.repo, "C16")



CX = "Analysis._create_xref"
MUTANTS = [
    Mut(ANALYSIS, "Analysis.add", "strings keyed by position", m_replace_src("self.strings[string_value] = StringAnalysis(string_value)", "self.strings[len(self.strings)] = StringAnalysis(string_value)")),
    Mut(ANALYSIS, "Analysis.add", "classes keyed by per-DEX index", m_replace_src("self.classes[current_class.get_name()] = ClassAnalysis(current_class)", "self.classes[i] = ClassAnalysis(current_class)", 1)),
    Mut(ANALYSIS, "Analysis.create_xref", "only the first DEX is scanned", m_replace_src("for vm in self.vms:", "for vm in self.vms[:1]:")),
    Mut(ANALYSIS, "Analysis.create_xref", "a table read by _create_xref is filled per DEX inside the xref loop", m_replace_src(
        "for current_class in vm.get_classes():", "for sv in vm.get_strings():\n    self.strings[sv] = StringAnalysis(sv)\nfor current_class in vm.get_classes():")),
    Mut(ANALYSIS, CX, "external class overwritten", m_replace_src("if type_info not in self.classes:", "if True:")),
    Mut(ANALYSIS, CX, "string analysis overwritten", m_replace_src("if string_value not in self.strings:", "if True:")),
    Mut(ANALYSIS, CX, "method decoded through the first DEX", m_replace_src("method_info = instruction.cm.vm.get_cm_method(idx_meth)", "method_info = self.vms[0].get_cm_method(idx_meth)")),
    Mut(ANALYSIS, CX, "callee class looked up in the instruction's DEX", m_replace_src("oth_cls = self.classes[class_info]", "oth_cls = self.classes[class_info]\nif instruction.cm.vm.get_class(class_info) is None:\n    continue", 1)),
    Mut(ANALYSIS, "MethodAnalysis.__init__", "xref container is a list", m_replace_src("self.xrefto = set()", "self.xrefto = list()")),
]
BENIGN = [
    Mut(ANALYSIS, "Analysis.add", "rename new_class", b_rename_local("new_class", "ca")),
    Mut(ANALYSIS, "Analysis.add", "strings before classes", m_replace_src("self.vms.append(vm)", "self.vms.append(vm)\nfor sv0 in vm.get_strings():\n    self.strings[sv0] = StringAnalysis(sv0)")),
    Mut(ANALYSIS, "Analysis.add", "method table key via a local", m_replace_src("self.__method_hashes[m_hash] = self.methods[method]", "ma = self.methods[method]\nself.__method_hashes[m_hash] = ma")),
    Mut(ANALYSIS, CX, "rename instruction", b_rename_local("instruction", "ins")),
    Mut(ANALYSIS, "Analysis.create_xref", "complete pre-fill loop before the xref loop", m_replace_src(
        "for vm in self.vms:", "for vm0 in self.vms:\n    for sv in vm0.get_strings():\n        self.strings[sv] = StringAnalysis(sv)\nfor vm in self.vms:")),
    Mut(ANALYSIS, "Analysis._resolve_method", "rename meth", b_rename_local("meth", "ext")),
]


def run(ctx):
    ctx.explanation = __doc__
    ctx.mod(ANALYSIS)
    eng = Engine(ctx.repo)
    core(ctx, eng)
    ctx.assume("DEX objects with distinct class names contribute distinct keys to self.classes / self.methods / the method table; "
               "equal strings of different DEX files denote the same StringAnalysis key")
    ctx.note("not decided: equality of the full result sets across permutations at run time; order of dict/list iteration "
             "(ExternalClass.methods is a list) is not part of the statement")
    if ctx.tier == "thorough":
        base = Collector()
        core(base, Engine(ctx.repo))
        run_mutants(ctx, ctx.repo, core, MUTANTS, BENIGN, base.keys())
