"""C17 -- renaming changes exactly the renamed item, for any sequence of renames.

(1) index-domain typing of the rename hook store.  ClassManager.set_hook_class_name /
    set_hook_method_name / set_hook_field_name are abstractly interpreted on symbolic
    items (item constructors run against symbolic streams, so every value carries the
    struct slot / LEB read it comes from).  The key under which the new name is stored
    is typed by the index domain the DEX format document gives that slot (string_idx,
    type_idx, field_idx, method_idx ...).  The key must identify the renamed *item*:
    method_idx (or the item object) for a method, field_idx for a field, type_idx /
    class_def for a class.  A string_idx key is shared by every item, and every
    string constant, that uses the same string-pool entry.
(2) lookup aliasing: the functions that consult the hook store do so with their
    own index argument (get_string: a string_idx, for every caller); const-string
    rendering (get_kind, Kind.STRING) resolves through such a function.
(3) cache-invalidation pairing: after the hook write, on every normal path, reload()
    is called on the id item whose name was hooked (method.reload(), field.reload(),
    class_def.reload()); EncodedMethod/EncodedField.set_name reload themselves after
    the hook call; and reload() really refreshes: the name reported after reload()
    comes from a resolver call made during that reload (call serial numbers).
"""
from __future__ import annotations

OWN_MUTATION_ADEQUACY = True  # thorough tier: rule-specific in-place AST mutants (mutate / re-run core / undo), see thorough()

import ast

from ..absint import Sym, Lin, Obj, Comp, Raised, explore, show
from ..bits import Bits
from ..cfg import CFG
from ..consts import Folder, Ref, EnumVal
from ..dexmodel import (DexInterp, StreamV, CMInfo, bind_ctor_args, prov, show_prov, slot_bits, STREAM_SPAN,
                        parse_constructors)
from ..model import DEX, DEX_TYPES, AnalysisError, walk_no_nested, dotted, parent, enclosing_stmt
from ..spec import dexformat as spec
from .c05 import ITEM_OF, Sink

# rename entry points: ClassManager method -> (what is renamed, domains that identify it)
WRITERS = {
    "set_hook_class_name": ("class", {"type", "item:ClassDefItem", "class_def"}),
    "set_hook_method_name": ("method", {"method", "item:EncodedMethod", "item:MethodIdItem"}),
    "set_hook_field_name": ("field", {"field", "item:EncodedField", "item:FieldIdItem"}),
}
SETTERS = {"EncodedMethod": "set_hook_method_name", "EncodedField": "set_hook_field_name", "ClassDefItem": "set_hook_class_name"}
RELOADERS = ["MethodIdItem", "FieldIdItem", "ClassDefItem", "EncodedMethod", "EncodedField"]


def run(ctx):
    ctx.explanation = __doc__
    core(ctx)
    ctx.floor("hook_writers", 3)
    ctx.floor("hook_stores", 3)
    ctx.floor("pairings", 5)
    ctx.floor("reload_refresh", 5)
    ctx.floor("exposure_pairs", 3)
    ctx.floor("rename_scenarios", 10)
    ctx.assume("item parameters of set_hook_*_name are instances of their annotated classes")
    positive_control(ctx)
    if ctx.tier == "thorough":
        thorough(ctx)


def _drop_stmt(node, pred):
    for n in ast.walk(node):
        for fld in ("body", "orelse", "finalbody"):
            body = getattr(n, fld, None)
            if isinstance(body, list):
                for i, s in enumerate(body):
                    if isinstance(s, ast.stmt) and pred(s):
                        old = body[i]
                        body[i] = ast.copy_location(ast.Pass(), old)

                        def undo(body=body, i=i, old=old):
                            body[i] = old
                        return undo
    return None


def _is_reload_stmt(s):
    return isinstance(s, ast.Expr) and isinstance(s.value, ast.Call) and isinstance(s.value.func, ast.Attribute) \
        and s.value.func.attr == "reload" and not s.value.args


def positive_control(ctx):
    """one seeded violation per run (in memory): without any reload() in set_hook_method_name the pairing rule must fire"""
    m = ctx.mod(DEX)
    node = m.func("ClassManager.set_hook_method_name").node
    undos = []
    while True:
        u = _drop_stmt(node, _is_reload_stmt)
        if u is None:
            break
        undos.append(u)
    ctx.require(undos, "positive control: set_hook_method_name contains no reload() statement to seed")
    try:
        s = Sink(ctx.repo)
        try:
            E = Env()
            E.ctx, E.repo, E.m = s, ctx.repo, m
            E.folder = Folder(E.repo)
            E.cmi = CMInfo(E.repo, E.folder)
            E.cm = E.cmi.cls
            E.store_attrs, E.storers = find_hook_store(E)
            check_pairing(E)
        except AnalysisError:
            pass
    finally:
        for u in reversed(undos):
            u()
    fired = any(f[0] == "reload-pairing" and f[1] == "ClassManager.set_hook_method_name" for f in s.findings)
    ctx.ob("positive-control", "seeded missing reload", fired, "pairing rule fires on the seeded violation")
    ctx.require(fired, "positive control did not fire: the reload-pairing rule no longer detects a missing reload()")


class Env:
    pass


def core(ctx):
    E = Env()
    E.ctx = ctx
    E.repo = ctx.repo
    E.m = ctx.mod(DEX)
    ctx.mod(DEX_TYPES)
    E.folder = Folder(E.repo)
    E.cmi = CMInfo(E.repo, E.folder)
    E.cm = E.cmi.cls
    E.sections = parse_constructors(E.repo, E.folder, E.cmi)
    for w in WRITERS:
        ctx.require(E.cm.lookup(w) is not None, "anchor vanished: ClassManager.%s" % w)
    E.store_attrs, E.storers = find_hook_store(E)
    ctx.require(E.store_attrs, "no dictionary store reachable from the set_hook_*_name functions (hook table not found)")
    doms = check_key_domains(E)
    check_lookup(E, doms)
    check_pairing(E)
    check_refresh(E)
    check_exposure(E, doms)
    check_rename_scenarios(E)


# ---- the hook store -------------------------------------------------------------------------
def self_calls(f):
    out = []
    for n in walk_no_nested(f.node):
        if isinstance(n, ast.Call) and isinstance(n.func, ast.Attribute) and isinstance(n.func.value, ast.Name) and n.func.value.id == "self":
            out.append((n.func.attr, n))
    return out


def find_hook_store(E):
    """dict attributes of ClassManager written (self.X[k] = v) by the rename functions, directly or through self-calls;
    -> ({attr}, {method name: [store nodes]})"""
    attrs, storers = set(), {}
    seen = set()
    work = list(WRITERS)
    while work:
        name = work.pop()
        if name in seen:
            continue
        seen.add(name)
        f = E.cm.lookup(name)
        if f is None:
            continue
        alias = {}
        for n in walk_no_nested(f.node):
            if isinstance(n, ast.Assign) and len(n.targets) == 1 and isinstance(n.targets[0], ast.Name) \
                    and isinstance(n.value, ast.Attribute) and isinstance(n.value.value, ast.Name) and n.value.value.id == "self":
                alias[n.targets[0].id] = n.value.attr
        for n in walk_no_nested(f.node):
            if isinstance(n, ast.Assign):
                for t in n.targets:
                    if isinstance(t, ast.Subscript) and isinstance(t.value, ast.Attribute) and isinstance(t.value.value, ast.Name) \
                            and t.value.value.id == "self":
                        attrs.add(t.value.attr)
                        storers.setdefault(name, []).append(n)
                    elif isinstance(t, ast.Subscript) and isinstance(t.value, ast.Name) and t.value.id in alias:
                        attrs.add(alias[t.value.id])
                        storers.setdefault(name, []).append(n)
        for callee, node in self_calls(f):
            work.append(callee)
    return attrs, storers


# ---- (1) key domains ------------------------------------------------------------------------------
class Streams:
    def __init__(self):
        self.by_index = {}
        self.n = 10

    def new(self, label, cls):
        self.n += 1
        st = StreamV(label, index=self.n)
        self.by_index[self.n] = (label, cls)
        return st


def domain_of(E, v, streams):
    """index domain(s) of an abstract value -> set of domain names; raises AnalysisError when not attributable"""
    if isinstance(v, Obj):
        return {"item:%s" % v.cls.name}
    if isinstance(v, (tuple, list)):
        out = set()
        for x in v:
            if isinstance(x, (str, bytes)) or x is None:
                continue
            out |= domain_of(E, x, streams)
        return out
    if isinstance(v, Bits) and not v.is_const():
        srcs = v.sources()
        idx = {s[1] // STREAM_SPAN for s in srcs}
        if len(idx) != 1 or v.has_top():
            raise AnalysisError("hook key mixes bytes of several items: %s" % v.describe())
        si = idx.pop()
        if si not in streams.by_index:
            raise AnalysisError("hook key comes from an unregistered stream")
        label, cls = streams.by_index[si]
        item = ITEM_OF.get(cls.name)
        if item is None:
            raise AnalysisError("hook key comes from %s, which has no layout in the format table" % cls.name)
        for fname, off, n, code, ref in spec.fixed_fields(item):
            if v == slot_bits(si, off, n):
                d = spec.domain(ref)
                if d is None:
                    raise AnalysisError("hook key is %s.%s, which is not an index (%s)" % (item, fname, ref))
                return {d}
        raise AnalysisError("hook key %s is not a whole field of %s" % (v.describe(), item))
    if isinstance(v, (Sym, Lin)):
        leaves = prov(v, opaque=[])
        out = set()
        for leaf, ch in leaves:
            if leaf[0] == "uleb128":
                label = leaf[1]
                cls = next((c for (l, c) in streams.by_index.values() if l == label), None)
                item = ITEM_OF.get(cls.name) if cls is not None else None
                lebs = spec.leb_fields(item) if item else []
                if leaf[2] < len(lebs):
                    d = spec.domain(lebs[leaf[2]][2])
                    if d:
                        out.add(d)
                        continue
                raise AnalysisError("hook key derives from LEB read #%s of %s, which is not an index" % (leaf[2], label))
            if leaf[0] == "param":
                continue  # the running previous index of the diff chain: same domain
            if leaf[0] == "bits":
                out |= domain_of(E, leaf[1], streams)
                continue
            raise AnalysisError("hook key has a leaf outside the typed fragment: %r" % (leaf,))
        if out:
            return out
    raise AnalysisError("hook key %s has no index domain" % show(v)[:80])


def describe_key(E, k, streams):
    if isinstance(k, Bits) and not k.is_const():
        srcs = k.sources()
        si = srcs[0][1] // STREAM_SPAN
        label, cls = streams.by_index.get(si, ("?", None))
        item = ITEM_OF.get(cls.name) if cls is not None else None
        if item:
            for fname, off, n, code, ref in spec.fixed_fields(item):
                if k == slot_bits(si, off, n):
                    return "%s.%s of %s" % (item, fname, label)
    if isinstance(k, Obj):
        return "the %s object" % k.cls.name
    return show(k)[:80]


def check_key_domains(E):
    ctx = E.ctx
    doms = {}
    for w, (what, good_domains) in WRITERS.items():
        f = E.cm.lookup(w)
        ctx.analysed(f)
        ctx.count("hook_writers")

        def run(asg, f=f, od=False):
            streams = Streams()
            it = DexInterp(E.repo, E.folder, asg=dict(asg), construct=lambda c: c.name in ITEM_OF or c.name in
                           ("TypeHIdItem", "ProtoHIdItem", "FieldHIdItem", "MethodHIdItem", "ClassHDefItem"),
                           inline_module=E.m, opaque_default=od)
            slf = Obj(E.cm, "cm")
            table = {}
            for mem, cl in E.sections.items():
                if len(cl) == 1 and not cl[0][1]:
                    cls = E.m.cls(cl[0][0])
                    if cls.name in ("TypeHIdItem", "ProtoHIdItem", "FieldHIdItem", "MethodHIdItem", "ClassHDefItem"):
                        elem = {"TypeHIdItem": "TypeIdItem", "ProtoHIdItem": "ProtoIdItem", "FieldHIdItem": "FieldIdItem",
                                "MethodHIdItem": "MethodIdItem", "ClassHDefItem": "ClassDefItem"}[cls.name]
                        st = streams.new(mem, E.m.cls(elem))
                        table[E.cmi.members[mem]] = it.construct_obj(cls, bind_ctor_args(cls, st, Sym("cm"), Sym("param", "n_" + mem)))
            slf.attrs[E.cmi.mangled(E.cmi.table_attr)] = table
            for a in E.store_attrs:
                slf.attrs[E.cmi.mangled(a)] = {}
            slf.attrs["vm"] = Sym("vm")
            args = []
            a = f.node.args
            for p in (a.posonlyargs + a.args)[1:]:
                ann = ast.unparse(p.annotation) if p.annotation is not None else ""
                cls = E.m.classes.get(ann.strip("'\""))
                if cls is not None and cls.name in ITEM_OF:
                    st = streams.new(p.arg, cls)
                    o = it.construct_obj(cls, bind_ctor_args(cls, st, Sym("cm")), name=p.arg)
                    adj = cls.lookup("adjust_idx")
                    if adj is not None:
                        it.call_function(adj, [Sym("param", "prev")], recv=o)
                    args.append(o)
                else:
                    args.append(Sym("param", p.arg))
            try:
                it.call_function(f, args, recv=slf)
            except Raised:
                pass
            stores = {x: dict(slf.attrs[E.cmi.mangled(x)]) for x in E.store_attrs}
            return stores, streams, args

        keys = []
        n_paths = 0
        # the python-export bookkeeping of these functions branches on many opaque tests that do not concern the store:
        # two deterministic paths are followed (every opaque test false / every opaque test true)
        results = []
        for od in (False, True):
            try:
                results.append(({}, run({}, od=od)))
            except Raised as r:
                results.append(({}, r))
        for asg, r in results:
            if isinstance(r, Raised):
                continue
            stores, streams, args = r
            n_paths += 1
            for attr, d in stores.items():
                for k, v in d.items():
                    dd = domain_of(E, k, streams)
                    if (attr, frozenset(dd)) not in [(a_, b_) for a_, b_, c_ in keys]:
                        keys.append((attr, frozenset(dd), describe_key(E, k, streams)))
        ctx.require(n_paths > 0, "ClassManager.%s raises on every abstract path" % w)
        node = store_site(E, f)
        if not keys:
            ctx.check("hook-store", "ClassManager.%s" % w, False, f, f.node.name,
                      "ClassManager.%s stores no replacement name on any path: the rename has no effect" % w)
            continue
        for attr, dd, shown in keys:
            ctx.count("hook_stores")
            ok = bool(dd & good_domains)
            doms.setdefault(w, set()).update(dd)
            ctx.check("hook-key-domain", "ClassManager.%s key" % w, ok, f,
                      "%s[%s: %s] = new %s name" % (attr, "/".join(sorted(dd)) + "_idx", shown.split(" of ")[0], what),
                      "renaming a %s stores the new name in %s under a %s key (%s): that key does not identify the %s -- every item "
                      "(and every string constant) that shares the pool entry is renamed with it; the key must be one of %s" % (
                          what, attr, "/".join(sorted(dd)) + "_idx", shown, what, sorted(good_domains)),
                      node=node, detail="%s key domain %s" % (w, sorted(dd)))
    return doms


def store_site(E, f):
    """the statement in f that performs the hook store (a direct store or the call of a storing helper)"""
    for n in walk_no_nested(f.node):
        if isinstance(n, ast.Assign) and n in E.storers.get(f.name, []):
            return n
    for callee, node in self_calls(f):
        if callee in E.storers:
            return node
    return f.node.name


# ---- (2) lookup aliasing ----------------------------------------------------------------------------
def check_lookup(E, doms):
    ctx = E.ctx
    readers = {}
    for name, f in E.cm.methods.items():
        for n in walk_no_nested(f.node):
            if isinstance(n, ast.Attribute) and isinstance(n.ctx, ast.Load) and isinstance(n.value, ast.Name) and n.value.id == "self" \
                    and n.attr in E.store_attrs:
                p = parent(n)
                if isinstance(p, ast.Subscript) and isinstance(p.ctx, ast.Store):
                    continue
                if isinstance(p, ast.Assign) and p.value is n and name in E.storers and all(isinstance(t, ast.Name) for t in p.targets):
                    # local alias of the table in a storing helper; its subscript uses are stores (find_hook_store)
                    al = {t.id for t in p.targets}
                    uses = [x for x in walk_no_nested(f.node) if isinstance(x, ast.Name) and x.id in al and isinstance(x.ctx, ast.Load)]
                    if all(isinstance(parent(x), ast.Subscript) and isinstance(parent(x).ctx, ast.Store) for x in uses):
                        continue
                readers.setdefault(name, []).append(n)
    from .c05 import cm_returns

    class _MD:
        repo, folder = E.repo, E.folder

    def table_keys(v, out):
        """keys of <hook table>[K] / <hook table>.get(K, ...) inside an abstract value"""
        if isinstance(v, Sym):
            if v.op == "index" and isinstance(v.args[0], Sym) and v.args[0].op == "attr" and v.args[0].args[0] == "self" \
                    and v.args[0].args[-1] in E.store_attrs:
                out.append(v.args[1])
            if v.op == "call" and len(v.args) >= 2 and isinstance(v.args[0], Sym) and v.args[0].op == "attr" and v.args[0].args[-1] == "get" \
                    and isinstance(v.args[0].args[0], Sym) and v.args[0].args[0].op == "attr" and v.args[0].args[0].args[0] == "self" \
                    and v.args[0].args[0].args[-1] in E.store_attrs:
                out.append(v.args[1])
            for a_ in v.args:
                table_keys(a_, out)
        elif isinstance(v, (list, tuple)):
            for a_ in v:
                table_keys(a_, out)

    for name, nodes in sorted(readers.items()):
        f = E.cm.methods[name]
        ctx.analysed(f)
        ctx.count("hook_readers")
        f_, params, vals = cm_returns(_MD, E.cm, name, symbolic_attrs=sorted(E.store_attrs))
        keys = []
        for v in vals:
            table_keys(v, keys)
        if not keys:
            raise AnalysisError("ClassManager.%s mentions the hook table but no returned value is looked up in it (shape outside the fragment)" % name)
        want = Sym("param", params[0]) if params else None
        for k in keys:
            ok = k == want
            if not ok:
                op = []
                prov(k, opaque=op)
                if op:
                    raise AnalysisError("ClassManager.%s: key of the hook-table lookup is an opaque term (%s)" % (name, op[0]))
            ctx.check("hook-lookup", "ClassManager.%s" % name, ok, f, "%s: hook table key %s" % (name, show(k)[:50]),
                      "ClassManager.%s consults the hook table with %s, not with its own index argument" % (name, show(k)[:60]),
                      detail="hook table looked up with the caller's index")
    E.readers = set(readers)
    if not readers:
        gs = E.cm.lookup("get_string")
        ctx.check("hook-visible", "hook table readers", False, gs if gs is not None else "ClassManager", "hook table is never consulted",
                  "no ClassManager accessor consults the rename table %s: a stored new name is never reported by any item" % sorted(E.store_attrs))
    # the store domain must be the lookup domain (else a rename is never visible)
    from .c05 import RESOLVER
    lookup_domains = {d for d, (acc, secs) in RESOLVER.items() if acc in E.readers}
    for w, dd in sorted(doms.items()):
        vis = bool(dd & lookup_domains) or any(x.startswith("item:") for x in dd)
        ctx.check("hook-visible", "ClassManager.%s" % w, vis or not lookup_domains, E.cm.lookup(w), "%s key vs lookup" % w,
                  "names stored by %s are keyed by %s but the table is consulted with %s indices: the rename is never seen" % (
                      w, sorted(dd), sorted(lookup_domains)), detail="store %s / lookup %s" % (sorted(dd), sorted(lookup_domains)))
    # const-string rendering
    gk = E.m.functions.get("get_kind")
    ctx.require(gk is not None and gk.cls is None, "anchor vanished: get_kind")
    ctx.analysed(gk)
    kinds = E.folder.enum_members(ctx.mod(DEX_TYPES).cls("Kind"))
    ctx.require("STRING" in kinds, "anchor vanished: Kind.STRING")

    def run(asg):
        it = DexInterp(E.repo, E.folder, asg=dict(asg))
        return it.call_function(gk, [Sym("cm"), kinds["STRING"], Sym("param", "value")])

    string_keyed = sorted(w for w, dd in doms.items() if "string" in dd)
    for asg, v in explore(run):
        ctx.require(isinstance(v, Sym) and isinstance(v.op, str) and v.op.startswith("cm."),
                    "get_kind(Kind.STRING) does not resolve through a ClassManager accessor: %s" % show(v)[:80])
        acc = v.op[3:]
        node = None
        for n in walk_no_nested(gk.node):
            if isinstance(n, ast.Call) and isinstance(n.func, ast.Attribute) and n.func.attr == acc:
                t = enclosing_if_test(n, gk.node)
                if t is not None and any(dotted(x) == "Kind.STRING" for x in ast.walk(t)):
                    node = n
        hooked = hook_reaching(E, acc)
        ctx.check("lookup-aliasing", "const-string via get_kind", not (hooked and string_keyed), gk, "Kind.STRING -> cm.%s" % acc,
                  "const-string operands are rendered through ClassManager.%s, which consults the rename table, and %s key that table by "
                  "string index: renaming an item whose name equals a string constant rewrites the constant in the disassembly" % (
                      acc, ", ".join(string_keyed)), node=node,
                  detail="Kind.STRING -> cm.%s (%s)" % (acc, "hooked" if hooked else "raw"))


def enclosing_if_test(n, top):
    p = parent(n)
    while p is not None and p is not top:
        if isinstance(p, ast.If):
            return p.test
        p = parent(p)
    return None


def hook_reaching(E, acc, seen=None):
    seen = seen or set()
    if acc in seen or acc not in E.cm.methods:
        return False
    seen.add(acc)
    if acc in E.readers:
        return True
    return any(hook_reaching(E, c, seen) for c, n in self_calls(E.cm.methods[acc]))


# ---- (3) invalidation pairing ------------------------------------------------------------------------
def names_in(e):
    return {x.id for x in ast.walk(e) if isinstance(x, ast.Name)}


def _aliases(f, names):
    """names plus locals that are plain aliases of them (x = name)"""
    out = set(names)
    changed = True
    while changed:
        changed = False
        for n in walk_no_nested(f.node):
            if isinstance(n, ast.Assign) and isinstance(n.value, ast.Name) and n.value.id in out:
                for t in n.targets:
                    if isinstance(t, ast.Name) and t.id not in out:
                        out.add(t.id)
                        changed = True
    return out


def reload_sites(f, recv_names, depth=0, memo=None):
    """statements of f that certainly reload one of recv_names: `<name>.reload()` or a call `self.h(..., name, ...)` of a
    helper of the same class that reloads that parameter on every normal path.  -> [(call node, stmt)]"""
    memo = memo if memo is not None else {}
    names = _aliases(f, recv_names)
    out = []
    for n in walk_no_nested(f.node):
        if not isinstance(n, ast.Call) or not isinstance(n.func, ast.Attribute):
            continue
        if n.func.attr == "reload" and not n.args and isinstance(n.func.value, ast.Name) and n.func.value.id in names:
            out.append((n, enclosing_stmt(n)))
        elif isinstance(n.func.value, ast.Name) and n.func.value.id == "self" and f.cls is not None and depth < 3:
            h = f.cls.lookup(n.func.attr)
            if h is None or h is f:
                continue
            hp = h.params()
            decos = {d.id if isinstance(d, ast.Name) else getattr(d, "attr", None) for d in h.node.decorator_list}
            off = 0 if "staticmethod" in decos else 1
            for i, a in enumerate(n.args):
                if isinstance(a, ast.Name) and a.id in names and i + off < len(hp):
                    if always_reloads(h, hp[i + off], depth + 1, memo):
                        out.append((n, enclosing_stmt(n)))
            if "self" in names and off == 1 and always_reloads(h, "self", depth + 1, memo):
                out.append((n, enclosing_stmt(n)))
    return [(n, st) for n, st in out if st is not None]


def always_reloads(h, param, depth, memo):
    key = (h.qualname, param)
    if key in memo:
        return memo[key]
    memo[key] = False
    sites = reload_sites(h, {param}, depth, memo)
    if sites:
        cfg = CFG(h.node)
        sts = [st for n, st in sites if st in cfg.g]
        memo[key] = bool(sts) and cfg.every_path_passes(cfg.entry, cfg.exit, sts)
    return memo[key]


def post_dominating_reload(f, after_stmt, recv_names):
    """every normal path after_stmt -> EXIT passes a statement that reloads one of recv_names (directly or through a helper).
    -> (a reload call node or None, ok, [(call, stmt)] all reload sites found, verdict detail)
    When not ok, `undecided` tells whether some path that avoids every reload site still contains a call that mentions the
    object and could not be resolved (then the absence of a reload is not established)."""
    cfg = CFG(f.node)
    sites = [(n, st) for n, st in reload_sites(f, recv_names) if st in cfg.g and st is not after_stmt]
    sts = [st for n, st in sites]
    after = [st for st in sts if cfg.reachable(after_stmt, st)]
    if after and cfg.every_path_passes(after_stmt, cfg.exit, after):
        return sites[0][0], True, sites
    return None, False, sites


def unresolved_touch(f, after_stmt, recv_names):
    """a call on a reload-free path after after_stmt that mentions the object and whose effect is unknown (not a getter)"""
    cfg = CFG(f.node)
    names = _aliases(f, recv_names)
    sites = [st for n, st in reload_sites(f, recv_names) if st in cfg.g and st is not after_stmt]
    for st in cfg.nodes():
        if st in sites or st is after_stmt:
            continue
        if not (cfg.reachable(after_stmt, st, avoiding=sites) and cfg.reachable(st, cfg.exit, avoiding=sites)):
            continue
        for n in ast.walk(st) if isinstance(st, ast.AST) else []:
            if isinstance(n, ast.Call):
                fn = n.func
                # the object itself is handed over (a value obtained from one of its getters does not count)
                mentions = any(isinstance(a, ast.Name) and a.id in names for a in list(n.args) + [k.value for k in n.keywords])
                recv_is = isinstance(fn, ast.Attribute) and isinstance(fn.value, ast.Name) and fn.value.id in names
                if recv_is and (fn.attr.startswith("get_") or fn.attr in ("reload",)):
                    continue
                if isinstance(fn, ast.Attribute) and isinstance(fn.value, ast.Name) and fn.value.id == "self" and f.cls is not None \
                        and f.cls.lookup(fn.attr) is not None:
                    continue  # same-class helper: already resolved by reload_sites
                if isinstance(fn, ast.Name) and fn.id in ("setattr", "delattr", "getattr", "isinstance", "len", "str", "repr", "print"):
                    continue
                if isinstance(fn, ast.Attribute) and dotted(fn) and dotted(fn).split(".")[0] in ("logger", "bytecode", "logging"):
                    continue
                if mentions or recv_is:
                    # a uniquely resolvable repository method that never touches reload() on that argument is harmless
                    if isinstance(fn, ast.Attribute) and mentions and not recv_is and _never_reloads_arg(f, n, names):
                        continue
                    return n
    return None


def _never_reloads_arg(f, call, names, depth=0):
    """the callee is the unique method of that name in the module and, for the parameter the object is bound to, contains
    no .reload() on it and does not hand it on (except to callees for which the same holds)"""
    m = f.module
    defs = [g for c in m.classes.values() for nm, g in c.methods.items() if nm == call.func.attr]
    if len(defs) != 1 or depth > 2:
        return False
    h = defs[0]
    hp = h.params()
    decos = {d.id if isinstance(d, ast.Name) else getattr(d, "attr", None) for d in h.node.decorator_list}
    off = 0 if "staticmethod" in decos else 1
    bound = {hp[i + off] for i, a in enumerate(call.args) if isinstance(a, ast.Name) and a.id in names and i + off < len(hp)}
    if not bound:
        return False
    bound = _aliases(h, bound)
    for n in walk_no_nested(h.node):
        if isinstance(n, ast.Call):
            fn = n.func
            if isinstance(fn, ast.Attribute) and isinstance(fn.value, ast.Name) and fn.value.id in bound:
                if fn.attr == "reload" or not fn.attr.startswith("get_"):
                    return False
                continue
            passed = any(isinstance(a, ast.Name) and a.id in bound for a in list(n.args) + [k.value for k in n.keywords])
            if passed:
                if isinstance(fn, ast.Name) and fn.id in ("setattr", "delattr", "getattr", "isinstance", "hasattr", "str", "repr", "len"):
                    continue
                if isinstance(fn, ast.Attribute) and _never_reloads_arg(h, n, bound, depth + 1):
                    continue
                return False
    return True


def check_pairing(E):
    ctx = E.ctx
    reloaded_param = {}
    # does the public setter of the item class reload itself after calling the rename function?
    self_reload = {}
    for cname, w in SETTERS.items():
        f0 = E.m.cls(cname).lookup("set_name")
        self_reload[w] = False
        if f0 is not None:
            for c0 in [n for n in walk_no_nested(f0.node) if isinstance(n, ast.Call) and isinstance(n.func, ast.Attribute) and n.func.attr == w]:
                n0, ok0, _ = post_dominating_reload(f0, enclosing_stmt(c0), {"self"})
                self_reload[w] = self_reload[w] or ok0
    for w, (what, gd) in WRITERS.items():
        f = E.cm.lookup(w)
        site = store_site(E, f)
        ctx.require(isinstance(site, ast.AST), "ClassManager.%s: hook store site not found" % w)
        st = enclosing_stmt(site)
        # the object whose name index was hooked: the receiver(s) the key expression is computed from
        key_exprs = []
        if isinstance(site, ast.Call) and site.args:
            key_exprs = [site.args[0]]
        elif isinstance(site, ast.Assign):
            key_exprs = [t.slice for t in site.targets if isinstance(t, ast.Subscript)]
        params = f.params()[1:]
        item_param = params[0] if params else None
        want = set()
        for ke in key_exprs:
            want |= receivers(ke)
            if not want:
                for d in local_defs(f, names_in(ke)):
                    want |= receivers(d)
            if not want:
                want |= names_in(ke) & set(params)
        want.discard("self")
        if not want and item_param:
            want = {item_param}
        node, ok, cands = post_dominating_reload(f, st, want)
        if not ok:
            # a reload of the whole section the hooked item was looked up in covers it
            secs = set()
            for d in local_defs(f, want):
                for x in ast.walk(d):
                    if isinstance(x, ast.Subscript) and isinstance(x.value, ast.Attribute) and x.value.attr == E.cmi.table_attr \
                            and E.cmi.member_of(x.slice):
                        secs.add(E.cmi.member_of(x.slice))
            cfg = CFG(f.node)
            for n in walk_no_nested(f.node):
                if isinstance(n, ast.Call) and isinstance(n.func, ast.Attribute) and n.func.attr == "reload" and not n.args:
                    r = n.func.value
                    if isinstance(r, ast.Subscript) and isinstance(r.value, ast.Attribute) and r.value.attr == E.cmi.table_attr \
                            and E.cmi.member_of(r.slice) in secs:
                        rs = enclosing_stmt(n)
                        if rs in cfg.g and rs is not st and cfg.reachable(st, rs) and cfg.every_path_passes(st, cfg.exit, [rs]):
                            node, ok = n, True
        if not ok and want == {item_param} and self_reload.get(w):
            ok = True  # the hooked object is the item itself and its set_name reloads it right after this call
        if not ok:
            u = unresolved_touch(f, st, want)
            if u is not None:
                raise AnalysisError("ClassManager.%s: on a path without reload() the hooked item is handed to `%s`, whose effect is not known" % (
                    w, ast.unparse(u)[:60]))
        ctx.count("pairings")
        ctx.check("reload-pairing", "ClassManager.%s" % w, ok, f, "%s: reload() of the hooked id item after the hook write" % w,
                  "after storing the new %s name, ClassManager.%s does not call reload() on %s on every normal path: the cached name of the id item stays stale "
                  "(reload calls found: %s)" % (what, w, "/".join(sorted(want)), [ast.unparse(c[0]) for c in cands] or "none"),
                  node=site, detail="%s post-dominates %s" % (ast.unparse(node) if node else "-", ast.unparse(site)[:60]))
        n2, ok2, _ = post_dominating_reload(f, st, {item_param}) if item_param else (None, False, [])
        reloaded_param[w] = ok2
    # set_name of the item classes
    for cname, w in SETTERS.items():
        cls = E.m.cls(cname)
        f = cls.lookup("set_name")
        ctx.require(f is not None, "anchor vanished: %s.set_name" % cname)
        ctx.analysed(f)
        calls = [n for n in walk_no_nested(f.node) if isinstance(n, ast.Call) and isinstance(n.func, ast.Attribute) and n.func.attr == w]
        ctx.check("reload-pairing", "%s.set_name" % cname, bool(calls), f, "%s.set_name hook call" % cname,
                  "%s.set_name does not register the new name through ClassManager.%s" % (cname, w))
        if not calls:
            continue
        c = calls[0]
        passes_self = any(isinstance(a, ast.Name) and a.id == "self" for a in c.args)
        ctx.check("reload-pairing", "%s.set_name passes self" % cname, passes_self, f, c,
                  "%s.set_name hooks the name of %s, not of itself" % (cname, ast.unparse(c.args[0]) if c.args else "nothing"), node=c)
        st = enclosing_stmt(c)
        node, ok, cands = post_dominating_reload(f, st, {"self"})
        ok = ok or reloaded_param.get(w, False)
        if not ok:
            u = unresolved_touch(f, st, {"self"})
            if u is not None and u is not c:
                raise AnalysisError("%s.set_name: on a path without self.reload() the item is handed to `%s`, whose effect is not known" % (
                    cname, ast.unparse(u)[:60]))
        ctx.count("pairings")
        ctx.check("reload-pairing", "%s.set_name reloads itself" % cname, ok, f, "%s.set_name: self.reload() after the hook call" % cname,
                  "%s.set_name does not reload itself after ClassManager.%s (and %s does not reload its item argument): "
                  "get_name() keeps returning the cached old name" % (cname, w, w), node=c,
                  detail="self.reload() post-dominates the hook call" if node else "%s reloads its argument" % w)


def receivers(e):
    """names used as the receiver of an attribute access / method call inside e"""
    return {x.value.id for x in ast.walk(e) if isinstance(x, ast.Attribute) and isinstance(x.value, ast.Name)} - {"self", "TypeMapItem"}


def local_defs(f, names):
    out = []
    for n in walk_no_nested(f.node):
        if isinstance(n, ast.Assign) and any(isinstance(t, ast.Name) and t.id in names for t in n.targets):
            out.append(n.value)
    return out


def is_item_lookup(call):
    return True


# ---- (2b) aliasing exposure: what a rename re-resolves through a coarsely keyed hook table ---------------
NON_NONE_ACCESSORS = {"get_string", "get_raw_string", "get_type", "get_proto", "get_field", "get_method", "get_type_list"}


class _ExposureInterp(DexInterp):
    """iterates a comprehension of abstract items through its representative element; ClassManager resolvers
    that always return a str / list are not None"""

    def concrete_iter(self, it):
        if isinstance(it, Comp) and isinstance(it.elt, Obj):
            return [it.elt]
        return super().concrete_iter(it)

    def compare(self, op, a, b, node, func):
        if isinstance(op, (ast.Is, ast.IsNot)):
            for x, y in ((a, b), (b, a)):
                if y is None and isinstance(x, Sym) and isinstance(x.op, str) and x.op.startswith("cm.") and x.op[3:] in NON_NONE_ACCESSORS:
                    return isinstance(op, ast.IsNot)
        return super().compare(op, a, b, node, func)


NAME_GETTERS = ("get_name", "get_class_name")


def reload_reads_hooks(E, cls):
    """-> (eager, lazy): hook-reaching ClassManager accessors called while <cls instance>.reload() runs (abstractly, caches
    filled by the constructor), and those called by the name getters of the reloaded item(s) *after* the reload although the
    same getters needed no resolver call before it (the reload only dropped the cached values: they are re-resolved lazily,
    at some later time, through whatever the hook table holds then)"""
    rl = cls.lookup("reload")
    if rl is None:
        return None
    eager, lazy = set(), set()

    def run(asg):
        calls = []
        it = _ExposureInterp(E.repo, E.folder, asg=dict(asg), inline_module=E.m,
                             construct=lambda c: c.name in ITEM_OF or c.name in ("TypeHIdItem", "ProtoHIdItem", "FieldHIdItem", "MethodHIdItem", "ClassHDefItem"),
                             on_cm_call=lambda name, args, serial: calls.append(name))
        st = StreamV("buff", index=0)
        o = it.construct_obj(cls, bind_ctor_args(cls, st, Sym("cm"), Sym("param", "size")))
        adj = cls.lookup("adjust_idx")
        if adj is not None:
            it.call_function(adj, [Sym("param", "prev")], recv=o)
        items = [o] + [x for c, x, a in it.new_log if x is not o and c.name in ITEM_OF]

        def ask():
            n0 = len(calls)
            for x in items:
                for g in NAME_GETTERS:
                    gf = x.cls.lookup(g) if x.cls else None
                    if gf is not None and len(gf.params()) == 1:
                        try:
                            it.call_function(gf, [], recv=x)
                        except Raised:
                            pass
            return calls[n0:]

        before = ask()
        mark = len(calls)
        it.call_function(rl, [], recv=o)
        during = calls[mark:]
        after = ask()
        return before, during, after

    for asg, r in explore(run, max_paths=256):
        if isinstance(r, Raised):
            continue
        before, during, after = r
        for name in during:
            if hook_reaching(E, name):
                eager.add(name)
        if not any(hook_reaching(E, n_) for n_ in before):
            for name in after:
                if hook_reaching(E, name):
                    lazy.add(name)
    return sorted(eager), sorted(lazy - eager)


def _root(e):
    while isinstance(e, (ast.Attribute, ast.Subscript, ast.Call)):
        e = e.func if isinstance(e, ast.Call) else e.value
    return e.id if isinstance(e, ast.Name) else None


def check_exposure(E, doms):
    ctx = E.ctx
    coarse = sorted(w for w, dd in doms.items() if not (dd & WRITERS[w][1]))
    if not coarse:
        ctx.ob("aliasing-exposure", "hook store is item-keyed", True, "every rename is keyed by the renamed item: re-resolving other items cannot alias")
        return
    from ..dexmodel import CallGraph
    cg = CallGraph(E.repo)
    cg.cmi = E.cmi
    for mem, cl in E.sections.items():
        cg.sections[mem] = [("list" if in_list else "inst", E.m.cls(cname)) for cname, in_list in cl]
    for w, (what, gd) in WRITERS.items():
        f = E.cm.lookup(w)
        types = cg.local_types(f)
        params = f.params()[1:]
        item_param = params[0] if params else None
        site = store_site(E, f)
        hooked = set()
        if isinstance(site, ast.Call) and site.args:
            hooked = receivers(site.args[0])
            if not hooked:
                for d in local_defs(f, names_in(site.args[0])):
                    hooked |= receivers(d)
        hooked.discard("self")
        own = set(hooked) | ({item_param} if item_param else set())
        # id items looked up with the renamed item's own index belong to it (method = METHOD_ID[encoded_method.get_method_idx()])
        for n0 in walk_no_nested(f.node):
            if isinstance(n0, ast.Assign) and len(n0.targets) == 1 and isinstance(n0.targets[0], ast.Name) and item_param \
                    and item_param in receivers(n0.value) | names_in(n0.value) and isinstance(n0.value, ast.Call):
                if any(isinstance(a, ast.Call) and _root(a) == item_param for a in n0.value.args):
                    own.add(n0.targets[0].id)
        w_func = f
        sites = []   # (reload call node, function it is in, names that denote the renamed item there)

        def collect(fn_, own_, depth_):
            for n_ in walk_no_nested(fn_.node):
                if not (isinstance(n_, ast.Call) and isinstance(n_.func, ast.Attribute)):
                    continue
                if n_.func.attr == "reload" and not n_.args:
                    sites.append((n_, fn_, own_))
                elif isinstance(n_.func.value, ast.Name) and n_.func.value.id == "self" and depth_ < 3:
                    h = E.cm.lookup(n_.func.attr)
                    if h is None or h is fn_ or h.name in WRITERS:
                        continue
                    hp = h.params()
                    decos = {d.id if isinstance(d, ast.Name) else getattr(d, "attr", None) for d in h.node.decorator_list}
                    off = 0 if "staticmethod" in decos else 1
                    own_h = {hp[i + off] for i, a in enumerate(n_.args) if isinstance(a, ast.Name) and a.id in own_ and i + off < len(hp)}
                    collect(h, own_h, depth_ + 1)

        collect(f, own, 0)
        for n, f, own_here in sites:
            types = cg.local_types(f)
            recv = n.func.value
            if isinstance(recv, ast.Name) and recv.id in own_here:
                continue  # the renamed item / the id item whose name was hooked
            # what is reloaded?
            label = None
            if isinstance(recv, ast.Subscript) and isinstance(recv.value, ast.Attribute) and recv.value.attr == E.cmi.table_attr and E.cmi.member_of(recv.slice):
                label = E.cmi.member_of(recv.slice)
            elif isinstance(recv, ast.Name):
                # loop variable over an item set: label by the call that produces the set
                lp = parent(n)
                while lp is not None and lp is not f.node and not (isinstance(lp, ast.For) and isinstance(lp.target, ast.Name) and lp.target.id == recv.id):
                    lp = parent(lp)
                if isinstance(lp, ast.For):
                    it = lp.iter
                    if isinstance(it, ast.Call) and isinstance(it.func, ast.Attribute):
                        cs = [c for c, pr in cg.resolve_method(it.func, f, types)]
                        label = "/".join(sorted({c.qualname for c in cs})) + "()" if cs else ast.unparse(it.func)
                    else:
                        label = ast.unparse(it)[:40]
            tys = [c for k, c in cg.expr_types(recv, f, types)]
            if label is None and tys and isinstance(recv, ast.Name):
                label = "/".join(sorted(c.name for c in tys)) + " object"
            if label is None or not tys:
                raise AnalysisError("%s: cannot tell what `%s` reloads (shape outside the fragment)" % (f.qualname, ast.unparse(n)))
            reads, lazy = set(), set()
            for c in tys:
                r = reload_reads_hooks(E, c)
                if r is None:
                    raise AnalysisError("%s: %s has no reload()" % (f.qualname, c.name))
                reads |= set(r[0])
                lazy |= set(r[1])
            ctx.count("exposure_pairs")
            if lazy and not reads:
                ctx.check("aliasing-exposure", "%s invalidates %s" % (w, label), False, w_func, "%s invalidates %s (lazy re-resolution)" % (w, label),
                          "while renames are keyed by string index (%s), ClassManager.%s only drops the cached names of %s (%s): each of them is re-resolved "
                          "through the hook table (%s) whenever it is asked next, so a rename made *after* this call also leaks into every item of that "
                          "set that shares the name string" % (", ".join(coarse), w, label, "/".join(c.name for c in tys) + ".reload()",
                                                             ", ".join("cm.%s" % a for a in sorted(lazy))), node=n,
                          detail="%s invalidates %s: names re-resolved lazily" % (w, label))
                continue
            ctx.check("aliasing-exposure", "%s reloads %s" % (w, label), not reads, w_func, "%s reloads %s" % (w, label),
                      "while renames are keyed by string index (%s), ClassManager.%s re-resolves %s through the hook table (%s via %s): every item of that "
                      "set that merely shares a name string with a previously renamed item takes over that name although it was never renamed" % (
                          ", ".join(coarse), w, label, "/".join(c.name for c in tys) + ".reload()", ", ".join("cm.%s" % a for a in sorted(reads))),
                      node=n, detail="%s reloads %s: %s" % (w, label, "reads the hook table" if reads else "only cached id-item values, no hook lookup"))


# ---- (4) end-to-end rename scenarios ---------------------------------------------------------------------
def _bytes_asg(stream, data):
    asg = {}
    for k, byte in enumerate(data):
        for i in range(8):
            asg[("s", stream.base + k, i)] = (byte >> i) & 1
    return asg


def check_rename_scenarios(E):
    """set_name() of an encoded field / method is executed end to end by the abstract interpreter on a concrete miniature
    ClassManager (real ClassManager / id item / encoded item code; strings and types answered by constants): afterwards the
    item must report the new name -- whether or not it was asked for its name before, and after a second rename."""
    import struct as _st
    from ..dexsim import SimInterp
    ctx = E.ctx
    m, cm_cls = E.m, E.cm
    kinds = (("field", "EncodedField", "FieldHIdItem", "FieldIdItem", "FIELD_ID_ITEM", 2),
             ("method", "EncodedMethod", "MethodHIdItem", "MethodIdItem", "METHOD_ID_ITEM", 3))
    histories = (("renamed before it was ever asked for its name", ["set:NEW"]),
                 ("asked for its name, then renamed", ["get", "set:NEW"]),
                 ("renamed twice", ["set:N1", "set:N2"]),
                 ("renamed, asked, renamed again", ["set:N1", "get", "set:N2"]))
    cm_init = cm_cls.lookup("__init__")
    for what, enc_name, h_name, id_name, section, nleb in kinds:
        enc_cls, h_cls, id_cls = m.cls(enc_name), m.cls(h_name), m.cls(id_name)
        set_name = enc_cls.lookup("set_name")
        get_name = enc_cls.lookup("get_name")
        ctx.require(set_name is not None and get_name is not None, "anchor vanished: %s.set_name / get_name" % enc_name)
        ctx.analysed(set_name)
        for label, steps in histories:
            asg0 = _bytes_asg(StreamV("ids", index=40), _st.pack("<2HI", 1, 2, 7) + _st.pack("<2HI", 3, 2, 9))

            class _Scen(SimInterp):
                def _h_method(self, it, recv, name, args, kwargs, e, func):
                    if isinstance(recv, Obj) and recv.cls is cm_cls:
                        k = args[0].value() if args and isinstance(args[0], Bits) and args[0].is_const() else (args[0] if args else None)
                        if name == "get_raw_string" and isinstance(k, int):
                            return "raw%d" % k
                        if name == "get_type_ref" and isinstance(k, int):
                            return 100 + k
                        if name == "get_proto" and isinstance(k, int):
                            return ["(p%d)" % k, "V"]
                    if isinstance(recv, Obj) and recv.name == "class-defs" and name == "get_class_idx":
                        return self.class_def
                    return super()._h_method(it, recv, name, args, kwargs, e, func)

            def run(asg):
                it = _Scen(E.repo, E.folder, asg={**asg0, **asg}, inline_module=m,
                           construct=lambda c: c.name in (id_name, h_name, enc_name))
                ids_st = StreamV("ids", index=40)   # a fresh stream per abstract run
                cmo = Obj(cm_cls, "cm")
                it.call_function(cm_init, [None], recv=cmo)
                from ..dexmodel import PackerFactoryV
                cmo.attrs["packer"] = PackerFactoryV()   # cm.packer[fmt] = Struct('<' + fmt) (the property is not interpreted)
                table = cmo.attrs.get(E.cmi.mangled(E.cmi.table_attr))
                if not isinstance(table, dict):
                    raise AnalysisError("ClassManager.__init__ does not create the section table as a dict display")
                it.class_def = Obj(m.cls("ClassDefItem"), "class-def")
                it.class_def.attrs["F"] = Obj(None, "F")
                it.class_def.attrs["M"] = Obj(None, "M")
                table[E.cmi.members["CLASS_DEF_ITEM"]] = Obj(m.cls("ClassHDefItem"), "class-defs")
                table[E.cmi.members[section]] = it.construct_obj(h_cls, bind_ctor_args(h_cls, ids_st, cmo, 2))
                est = StreamV("enc", index=41)
                est.leb_values = [0] * nleb
                enc = it.construct_obj(enc_cls, bind_ctor_args(enc_cls, est, cmo))
                adj = enc_cls.lookup("adjust_idx")
                it.call_function(adj, [0], recv=enc)
                last = None
                for st_ in steps:
                    if st_ == "get":
                        it.call_function(get_name, [], recv=enc)
                    else:
                        last = st_[4:]
                        it.call_function(set_name, [last], recv=enc)
                return it.call_function(get_name, [], recv=enc), last

            n = 0
            from .. import absint as _absint
            depth0 = _absint.MAX_DEPTH
            _absint.MAX_DEPTH = max(depth0, 24)   # set_name -> hook -> get_name -> load -> reload -> resolver -> id item is deeper than the default
            try:
                results = explore(run, max_paths=128)
            finally:
                _absint.MAX_DEPTH = depth0
            for asg, r in results:
                if isinstance(r, Raised):
                    raise AnalysisError("rename scenario (%s, %s) raises in the simulation: %s" % (what, label, r))
                got, want = r
                if not isinstance(got, str):
                    raise AnalysisError("rename scenario (%s, %s): the reported name evaluates to %s, not to a concrete string" % (what, label, show(got)[:80]))
                n += 1
                ctx.check("rename-scenario", "%s %s" % (what, label), got == want, set_name, "%s.set_name: %s" % (enc_name, label),
                          "a %s that is %s reports the name %r afterwards, not the new name %r (a stale resolved value survives the rename)" % (
                              what, label, got, want), detail="%s.get_name() == %r" % (enc_name, want))
            ctx.require(n > 0, "rename scenario (%s, %s) has no abstract path" % (what, label))
            ctx.count("rename_scenarios")
        # two ClassManagers in one process (two DEX objects): a rename in one must not be visible through the other
        asg0 = _bytes_asg(StreamV("ids", index=40), _st.pack("<2HI", 1, 2, 7) + _st.pack("<2HI", 3, 2, 9))

        class _Scen2(SimInterp):
            def _h_method(self, it, recv, name, args, kwargs, e, func):
                if isinstance(recv, Obj) and recv.cls is cm_cls:
                    k = args[0].value() if args and isinstance(args[0], Bits) and args[0].is_const() else (args[0] if args else None)
                    if name == "get_raw_string" and isinstance(k, int):
                        return "raw%d" % k
                    if name == "get_type_ref" and isinstance(k, int):
                        return 100 + k
                    if name == "get_proto" and isinstance(k, int):
                        return ["(p%d)" % k, "V"]
                if isinstance(recv, Obj) and recv.name == "class-defs" and name == "get_class_idx":
                    return self.class_def
                return super()._h_method(it, recv, name, args, kwargs, e, func)

        def run2(asg):
            it = _Scen2(E.repo, E.folder, asg={**asg0, **asg}, inline_module=m, construct=lambda c: c.name in (id_name, h_name, enc_name))
            from ..dexmodel import PackerFactoryV
            it.class_def = Obj(m.cls("ClassDefItem"), "class-def")
            it.class_def.attrs["F"] = Obj(None, "F")
            it.class_def.attrs["M"] = Obj(None, "M")
            cms = []
            for k_ in range(2):
                cmo = Obj(cm_cls, "cm%d" % k_)
                it.call_function(cm_init, [None], recv=cmo)
                cmo.attrs["packer"] = PackerFactoryV()
                table = cmo.attrs.get(E.cmi.mangled(E.cmi.table_attr))
                if not isinstance(table, dict):
                    raise AnalysisError("ClassManager.__init__ does not create the section table as a dict display")
                table[E.cmi.members["CLASS_DEF_ITEM"]] = Obj(m.cls("ClassHDefItem"), "class-defs")
                table[E.cmi.members[section]] = it.construct_obj(h_cls, bind_ctor_args(h_cls, StreamV("ids", index=40), cmo, 2))
                cms.append(cmo)
            est = StreamV("enc", index=41)
            est.leb_values = [0] * nleb
            enc = it.construct_obj(enc_cls, bind_ctor_args(enc_cls, est, cms[0]))
            it.call_function(enc_cls.lookup("adjust_idx"), [0], recv=enc)
            it.call_function(set_name, ["NEW"], recv=enc)
            gs = cm_cls.lookup("get_string")
            return it.call_function(gs, [7], recv=cms[1]), it.call_function(gs, [7], recv=cms[0])

        from .. import absint as _absint
        depth0 = _absint.MAX_DEPTH
        _absint.MAX_DEPTH = max(depth0, 24)
        try:
            results = explore(run2, max_paths=128)
        finally:
            _absint.MAX_DEPTH = depth0
        for asg, r in list.__iter__(results):
            if isinstance(r, Raised):
                raise AnalysisError("two-ClassManager rename scenario (%s) raises in the simulation: %s" % (what, r))
            other, own = r
            if not isinstance(other, str) or not isinstance(own, str):
                raise AnalysisError("two-ClassManager rename scenario (%s): get_string evaluates to %s / %s" % (what, show(other)[:50], show(own)[:50]))
            if hasattr(ctx, "path"):
                ctx.path(None)
            ctx.check("rename-scenario", "%s renamed in another ClassManager" % what, other == "raw7", set_name,
                      "%s.set_name: effect on a second ClassManager" % enc_name,
                      "after renaming a %s through one ClassManager (one DEX object), get_string(7) of ANOTHER ClassManager created in the same "
                      "process returns %r instead of its own string %r: the rename table is shared between DEX objects" % (what, other, "raw7"),
                      detail="second ClassManager unaffected: get_string(7) == 'raw7' (renaming one: %r)" % own)
        ctx.count("rename_scenarios")


# ---- (3c) reload refreshes ------------------------------------------------------------------------------
def max_serial(v, acc=None):
    """(min, max) serial numbers of the cm.* calls inside v"""
    acc = acc if acc is not None else []
    if isinstance(v, Sym):
        if isinstance(v.op, str) and v.op.startswith("cm."):
            for a in v.args:
                if isinstance(a, Sym) and a.op == "#":
                    acc.append(a.args[0])
        for a in v.args:
            max_serial(a, acc)
    elif isinstance(v, (list, tuple)):
        for a in v:
            max_serial(a, acc)
    elif isinstance(v, Comp):
        max_serial(v.elt, acc)
        max_serial(v.iter, acc)
    elif isinstance(v, Lin):
        for a in v.terms:
            max_serial(a, acc)
    return acc


def check_refresh(E):
    ctx = E.ctx
    for cname in RELOADERS:
        cls = E.m.cls(cname)
        rl, gn = cls.lookup("reload"), cls.lookup("get_name")
        ctx.require(rl is not None and gn is not None, "anchor vanished: %s.reload / get_name" % cname)
        ctx.analysed(rl)

        def run(asg):
            it = DexInterp(E.repo, E.folder, asg=dict(asg), construct=lambda c: False, inline_module=E.m, serials=True)
            st = StreamV("buff", index=0)
            o = it.construct_obj(cls, bind_ctor_args(cls, st, Sym("cm")))
            first = it.call_function(gn, [], recv=o)  # fills every cache
            s0 = it.serial
            it.call_function(rl, [], recv=o)
            v = it.call_function(gn, [], recv=o)
            return s0, v

        n = 0
        for asg, r in explore(run):
            if isinstance(r, Raised):
                continue
            s0, v = r
            ser = max_serial(v)
            if not ser:
                # constant fallbacks (error names) carry no resolver call
                if not prov(v, opaque=[]):
                    continue
            n += 1
            ok = bool(ser) and min(ser) > s0
            ctx.check("reload-refresh", "%s.reload" % cname, ok, rl, "%s.reload refreshes the name" % cname,
                      "after %s.reload() get_name() still returns a value resolved before the reload (%s): a rename is not picked up" % (
                          cname, show(v)[:100]), detail="name after reload() comes from resolver call #%s > #%d" % (ser, s0))
        ctx.require(n > 0, "%s.get_name never returns a resolved value" % cname)
        ctx.count("reload_refresh")


# ---------------------------------------------------------------------------
def thorough(ctx):
    m = ctx.mod(DEX)

    def fn(q):
        return m.func(q).node

    def drop_stmt(q, pred):
        def mk():
            node = fn(q)
            for n in ast.walk(node):
                for fld in ("body", "orelse", "finalbody"):
                    body = getattr(n, fld, None)
                    if isinstance(body, list):
                        for i, s in enumerate(body):
                            if isinstance(s, ast.stmt) and pred(s):
                                old = body[i]
                                body[i] = ast.copy_location(ast.Pass(), old)

                                def undo(body=body, i=i, old=old):
                                    body[i] = old
                                return undo
            return None
        return mk

    def is_reload_of(name):
        return lambda s: isinstance(s, ast.Expr) and isinstance(s.value, ast.Call) and ast.unparse(s.value) == "%s.reload()" % name

    def lazy_reload():
        node = fn("MethodIdItem.reload")
        for i, s in enumerate(node.body):
            if isinstance(s, ast.Assign) and "name_idx_value" in ast.unparse(s.targets[0]):
                old = node.body[i]
                guard = ast.parse("if getattr(self, 'name_idx_value', None) is None:\n    pass").body[0]
                guard.body = [old]
                ast.copy_location(guard, old)
                ast.fix_missing_locations(guard)
                for ch in ast.walk(guard):
                    for c2 in ast.iter_child_nodes(ch):
                        c2._parent = ch
                guard._parent = node
                node.body[i] = guard

                def undo():
                    node.body[i] = old
                    old._parent = node
                return undo
        return None

    def move_reload_before_store():
        node = fn("ClassManager.set_hook_field_name")
        body = node.body
        si = next((i for i, s in enumerate(body) if "set_hook_string" in ast.unparse(s)), None)
        ri = next((i for i, s in enumerate(body) if ast.unparse(s).strip() == "field.reload()"), None)
        if si is None or ri is None:
            return None
        r = body.pop(ri)
        body.insert(si, r)

        def undo():
            body.remove(r)
            body.insert(ri, r)
        return undo

    def key_by_item():
        # repairs the method key: must make the method finding disappear without raising others
        node = fn("ClassManager.set_hook_method_name")
        for n in ast.walk(node):
            if isinstance(n, ast.Call) and isinstance(n.func, ast.Attribute) and n.func.attr == "set_hook_string" and n.args:
                old = n.args[0]
                n.args[0] = ast.parse("('method', encoded_method.get_method_idx())", mode="eval").body

                def undo():
                    n.args[0] = old
                return undo
        return None

    def rename_local(q, old, new):
        def mk():
            node = fn(q)
            hit = [n for n in ast.walk(node) if isinstance(n, ast.Name) and n.id == old]
            if not hit:
                return None
            for n in hit:
                n.id = new

            def undo():
                for n in hit:
                    n.id = old
            return undo
        return mk

    def reload_all_method_ids():
        node = fn("ClassManager.set_hook_method_name")
        new = ast.parse("self.__manage_item[TypeMapItem.METHOD_ID_ITEM].reload()").body[0]
        ast.copy_location(new, node.body[-1])
        ast.fix_missing_locations(new)
        for a in ast.walk(new):
            for b in ast.iter_child_nodes(a):
                b._parent = a
        new._parent = node
        node.body.append(new)

        def undo():
            node.body.remove(new)
        return undo

    base = Sink(ctx.repo)
    core(base)
    base_keys = {(r, q, str(c)) for r, q, c, msg in [(a, b, _norm(c), d) for a, b, c, d in base.findings]}
    breaking = [("set_hook_method_name: method.reload() dropped", drop_stmt("ClassManager.set_hook_method_name", is_reload_of("method"))),
                ("set_hook_class_name: class_def.reload() dropped", drop_stmt("ClassManager.set_hook_class_name", is_reload_of("class_def"))),
                ("EncodedMethod.set_name: self.reload() dropped", drop_stmt("EncodedMethod.set_name", is_reload_of("self"))),
                ("EncodedField.set_name: self.reload() dropped", drop_stmt("EncodedField.set_name", is_reload_of("self"))),
                ("MethodIdItem.reload made lazy", lazy_reload),
                ("set_hook_field_name: reload before the store", move_reload_before_store),
                ("set_hook_method_name additionally reloads every method id", reload_all_method_ids)]
    benign = [("rename local method -> mid", rename_local("ClassManager.set_hook_method_name", "method", "mid")),
              ("rename local field -> fid", rename_local("ClassManager.set_hook_field_name", "field", "fid")),
              ("rename local _type -> tref", rename_local("ClassManager.set_hook_class_name", "_type", "tref"))]
    killed = total = silent = btotal = 0
    survivors, noisy = [], []
    for name, mk in breaking:
        undo = mk()
        if undo is None:
            continue
        total += 1
        try:
            s = Sink(ctx.repo)
            try:
                core(s)
                new = {(a, b, _norm(c)) for a, b, c, d in s.findings} - base_keys
                fired = bool(new)
            except AnalysisError:
                fired = False
        finally:
            undo()
        killed += fired
        if not fired:
            survivors.append(name)
    for name, mk in benign:
        undo = mk()
        if undo is None:
            continue
        btotal += 1
        try:
            s = Sink(ctx.repo)
            try:
                core(s)
                new = {(a, b) for a, b, c, d in s.findings} - {(a, b) for a, b, c in base_keys}
                quiet = not new
            except AnalysisError:
                quiet = True
        finally:
            undo()
        silent += quiet
        if not quiet:
            noisy.append((name, sorted(new)[:2]))
    # repaired-tree silence for the method key
    undo = key_by_item()
    repaired = None
    if undo is not None:
        try:
            s = Sink(ctx.repo)
            try:
                core(s)
                repaired = not any(a == "hook-key-domain" and b == "ClassManager.set_hook_method_name" for a, b, c, d in s.findings)
            except AnalysisError:
                repaired = None
        finally:
            undo()
    ctx.extra.update(mutants_killed=killed, mutants_total=total, benign_silent=silent, benign_total=btotal,
                     repaired_key_silent=repaired)
    ctx.ob("mutation-adequacy", "breaking mutants", killed == total, "%d/%d killed" % (killed, total))
    ctx.ob("mutation-adequacy", "benign mutants", silent == btotal, "%d/%d silent" % (silent, btotal))
    if survivors:
        raise AnalysisError("rule lost its teeth: surviving mutants %s" % survivors)
    if noisy:
        raise AnalysisError("rule fires on behaviour-preserving edits: %s" % noisy)
    ctx.require(total >= 5 and btotal >= 3, "mutation anchors vanished (%d breaking, %d benign applicable)" % (total, btotal))


def _norm(c):
    from ..model import norm
    try:
        return norm(c)
    except Exception:
        return str(c)
