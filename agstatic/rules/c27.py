"""C27 -- resource values are formatted with Android's meaning.

Rule: format_value is abstractly interpreted for every defined Res_value type
with a symbolic unsigned 32-bit datum (paths split on the radix, unit and
package bits).  The produced formatting result is normalised into pieces
(literal text, hex digits as nibbles of the datum, decimal of a bit-value,
float of a bit-value times a constant) and compared with the AOSP definition:
references/attributes '@'/'?' + 'android:' iff package byte == 1 + 8 hex
digits; float = IEEE reinterpretation of the same 32 bits; hex 0x%08X; boolean
false iff 0; decimal = two's-complement signed 32 bit; colours '#' + 8 hex
digits; dimension/fraction = SIGNED 24-bit mantissa (bits 8..31) times
RADIX_MULTS[bits 4..5] (x100 for fractions) + unit name of bits 0..3.
ARSCParser.get_resource_dimen/color are interpreted the same way.
"""
from __future__ import annotations

import ast
import math

from ..absint import Interp, Sym, Lin, Obj, Raised, explore, show, has_opaque
from ..bits import Bits
from ..consts import Folder
from ..fmtpieces import pieces, FormatError
from ..model import AXML, AXML_TYPES, AnalysisError

# AOSP frameworks/base ResourceTypes.h (Res_value) and android.util.TypedValue
T = dict(NULL=0x00, REFERENCE=0x01, ATTRIBUTE=0x02, STRING=0x03, FLOAT=0x04, DIMENSION=0x05, FRACTION=0x06,
         INT_DEC=0x10, INT_HEX=0x11, INT_BOOLEAN=0x12, INT_COLOR_ARGB8=0x1C, INT_COLOR_RGB8=0x1D,
         INT_COLOR_ARGB4=0x1E, INT_COLOR_RGB4=0x1F)
REPO_NAMES = {"NULL": "TYPE_NULL", "REFERENCE": "TYPE_REFERENCE", "ATTRIBUTE": "TYPE_ATTRIBUTE", "STRING": "TYPE_STRING",
              "FLOAT": "TYPE_FLOAT", "DIMENSION": "TYPE_DIMENSION", "FRACTION": "TYPE_FRACTION", "INT_DEC": "TYPE_INT_DEC",
              "INT_HEX": "TYPE_INT_HEX", "INT_BOOLEAN": "TYPE_INT_BOOLEAN", "INT_COLOR_ARGB8": "TYPE_INT_COLOR_ARGB8",
              "INT_COLOR_RGB8": "TYPE_INT_COLOR_RGB8", "INT_COLOR_ARGB4": "TYPE_INT_COLOR_ARGB4", "INT_COLOR_RGB4": "TYPE_INT_COLOR_RGB4"}
MANTISSA_MULT = 1.0 / (1 << 8)
RADIX = [1.0 * MANTISSA_MULT, 1.0 / (1 << 7) * MANTISSA_MULT, 1.0 / (1 << 15) * MANTISSA_MULT, 1.0 / (1 << 23) * MANTISSA_MULT]
DIM_UNITS = ["px", "dip", "sp", "pt", "in", "mm"]
FRAC_UNITS = ["%", "%p"]

DATA = [("s", "d", i) for i in range(32)]


def data_bits(asg):
    return Bits.source([asg.get(k, k) for k in DATA], False)


def nibbles_of(b):
    return [Bits.source(list(b.b[4 * k: 4 * k + 4]), False) for k in range(7, -1, -1)]


def float_factors(v, asg):
    """flatten products: -> (bits_factor or None, const product, ok)"""
    consts = 1.0
    bitsf = []
    stack = [v]
    while stack:
        x = stack.pop()
        if isinstance(x, Sym) and x.op in ("floatMult", "Mult"):
            stack.extend(x.args)
        elif isinstance(x, Lin) and x.const == 0 and len(x.terms) == 1:
            (atom, c), = x.terms.items()
            consts *= c
            stack.append(atom)
        elif isinstance(x, (int, float)) and not isinstance(x, bool):
            consts *= x
        elif isinstance(x, Sym) and x.op == "float" and len(x.args) == 1:
            a = x.args[0]
            if isinstance(a, int):
                a = Bits.const(a)
            if isinstance(a, Bits):
                bitsf.append(a.subst(asg))
            else:
                return None, consts, False
        elif isinstance(x, Bits):
            bitsf.append(x.subst(asg))
        else:
            return None, consts, False
    if len(bitsf) != 1:
        return None, consts, False
    return bitsf[0], consts, True


def run(ctx):
    ctx.explanation = __doc__
    repo = ctx.repo
    m = ctx.mod(AXML)
    tm = ctx.mod(AXML_TYPES)
    folder = Folder(repo)
    fv = m.func("format_value")
    c2f = m.func("complexToFloat")
    ctx.analysed(fv)
    ctx.analysed(c2f)
    for k, name in REPO_NAMES.items():
        v = folder.global_(tm, name)
        ctx.check("type-constants", name, v == T[k], "module", "%s = %r" % (name, v), "%s is 0x%02x in ResourceTypes.h, types.py says %r" % (name, T[k], v), file=tm.relpath)

    hooks = {"inline_funcs": {"*module*"}}

    def run_type(t):
        def run(asg):
            a = dict(asg)
            it = Interp(repo, folder, asg=a, hooks=hooks)
            it.max_split = 8
            out = it.call_function(fv, [t, data_bits(a), Sym("lookup_string")])
            return a, out, list(it.path)
        return explore(run)

    for name, t in sorted(T.items(), key=lambda kv: kv[1]):
        if name == "NULL":
            continue
        res = run_type(t)
        ctx.count("types")
        for asg0, r in res:
            ctx.count("paths")
            _check_path(ctx, fv, name, t, asg0, r)
    ctx.floor("types", 13)
    ctx.floor("paths", 100)

    # ---- history independence, decided positively: the same data word formatted as type A and then as type B in ONE interpreter
    # (module-level state written by the first call is visible to the second) must give exactly what B gives in a fresh interpreter
    names = [n for n, _ in sorted(T.items(), key=lambda kv: kv[1]) if n not in ("NULL", "STRING")]
    pairs = [(a_, b_) for a_, b_ in (("DIMENSION", "FRACTION"), ("FRACTION", "DIMENSION"), ("INT_DEC", "INT_HEX"),
                                     ("REFERENCE", "ATTRIBUTE")) if a_ in T and b_ in T]
    if ctx.tier == "thorough":
        pairs += [("INT_HEX", "INT_DEC"), ("FLOAT", "INT_DEC")]
    if ctx.tier == "thorough":
        # every type after its neighbour in the type table, after DIMENSION and after INT_DEC
        for i, b_ in enumerate(names):
            for a_ in (names[i - 1], "DIMENSION", "INT_DEC"):
                if a_ != b_ and (a_, b_) not in pairs:
                    pairs.append((a_, b_))
    for na, nb in pairs:
        def run(asg, ta=T[na], tb=T[nb]):
            a = dict(asg)
            it = Interp(repo, folder, asg=a, hooks=hooks)
            it.max_split = 8
            try:
                it.call_function(fv, [ta, data_bits(a), Sym("lookup_string")])
            except Raised:
                pass
            try:
                out = it.call_function(fv, [tb, data_bits(a), Sym("lookup_string")])
            except Raised as ex:
                out = ex
            it2 = Interp(repo, folder, asg=a, hooks=hooks)
            it2.max_split = 8
            try:
                ref = it2.call_function(fv, [tb, data_bits(a), Sym("lookup_string")])
            except Raised as ex:
                ref = ex
            return a, out, ref
        ctx.count("sequence_pairs")
        for asg0, r in explore(run):
            if isinstance(r, Raised):
                continue   # the first call's own exception paths are judged by the per-type clause
            asg, out, ref = r
            inst = "TYPE_%s after the same data was formatted as TYPE_%s, data=%s" % (nb, na, _dwit(asg)["data_bits_msb_first"])
            so, sr = (str(out) if isinstance(out, Raised) else show(out)), (str(ref) if isinstance(ref, Raised) else show(ref))
            same = so == sr
            if not same and (has_opaque(out, allow=("lookup_string",)) or has_opaque(ref, allow=("lookup_string",))):
                raise AnalysisError("format_value: TYPE_%s after TYPE_%s gives %s, in a fresh state %s: terms the interpreter could not evaluate stand in the way" % (nb, na, so[:120], sr[:120]))
            ctx.check("sequence/%s-then-%s" % (na, nb), inst, same, fv, "TYPE_%s after TYPE_%s" % (nb, na),
                      "format_value depends on the call history: TYPE_%s of a data word gives %s after the same word was formatted as TYPE_%s, but %s in a fresh state" % (nb, so[:160], na, sr[:160]),
                      witness=_dwit(asg), detail="same result as in a fresh state")
    ctx.floor("sequence_pairs", 4)
    _check_arsc_getters(ctx, repo, folder, m, hooks)
    ctx.assume("_data is the unsigned 32-bit Res_value.data (all callers unpack it with an unsigned 32-bit slot)")
    ctx.note("unit nibbles outside the AOSP tables (dimension > 5, fraction > 1) are invalid data and not constrained")


def _dwit(asg):
    fixed = {k[2]: v for k, v in asg.items() if k[0] == "s" and k[1] == "d"}
    return {"data_bits_msb_first": "".join(str(fixed.get(i, "x")) for i in range(31, -1, -1))}


def _check_path(ctx, fv, name, t, asg0, r):
    inst = "TYPE_%s data=%s" % (name, _dwit(asg0 if not isinstance(asg0, tuple) else {})["data_bits_msb_first"])
    rule = "format/" + name
    if isinstance(r, Raised):
        asg = asg0
        d = data_bits(asg)
        unit = Bits.source(list(d.b[0:4]), False)
        if r.exc == "IndexError" and name in ("DIMENSION", "FRACTION") and unit.is_const() and unit.value() >= len(DIM_UNITS if name == "DIMENSION" else FRAC_UNITS):
            ctx.ob(rule, inst, True, "unit %d is outside the AOSP unit table (invalid data): IndexError tolerated" % unit.value())
            return
        ctx.check(rule, inst, False, fv, "TYPE_%s" % name, "format_value raises %s for TYPE_%s" % (r, name), node=r.node, witness=_dwit(asg))
        return
    asg, out, path = r
    d = data_bits(asg)

    def fail(msg):
        if has_opaque(out, allow=("lookup_string",)):
            raise AnalysisError("format_value: the result for TYPE_%s contains a term the interpreter could not evaluate (%s)" % (name, show(out)[:200]))
        ctx.check(rule, inst, False, fv, "TYPE_%s: %s" % (name, msg[:100]), "TYPE_%s is formatted wrongly: %s (result %s)" % (name, msg, show(out)[:200]), witness=_dwit(asg))

    def ok(detail):
        ctx.ob(rule, inst, True, detail)

    if name == "STRING":
        good = isinstance(out, Sym) and out.op == "call" and out.args[0] == "lookup_string" and len(out.args) == 2 and isinstance(out.args[1], Bits) and out.args[1].subst(asg) == d
        return ok("lookup_string(data)") if good else fail("expected lookup_string(data)")
    try:
        ps = pieces(out)
    except FormatError as e:
        return fail("unrecognised formatting: %s" % e)
    if name in ("REFERENCE", "ATTRIBUTE"):
        sigil = "@" if name == "REFERENCE" else "?"
        pkg = Bits.source(list(d.b[24:32]), False)
        if not pkg.is_const():
            return fail("package byte not resolved on this path")
        lit = sigil + ("android:" if pkg.value() == 1 else "")
        if len(ps) == 2 and ps[0] == ("lit", lit) and ps[1][0] == "hex" and _nib_eq(ps[1][1], nibbles_of(d), asg) and ps[1][2]:
            return ok("%r + 8 upper-case hex digits of data" % lit)
        return fail("expected %r followed by 8 hex digits of data" % lit)
    if name == "FLOAT":
        if len(ps) == 1 and ps[0][0] == "float" and isinstance(ps[0][2], Sym) and ps[0][2].op == "ieee32" and ps[0][2].args[0].subst(asg) == d:
            return ok("%f of the IEEE-754 reinterpretation of the 32 data bits")
        return fail("expected the IEEE-754 reinterpretation of the same 32 bits")
    if name == "INT_HEX":
        if len(ps) == 2 and ps[0] == ("lit", "0x") and ps[1][0] == "hex" and _nib_eq(ps[1][1], nibbles_of(d), asg):
            return ok("'0x' + 8 hex digits")
        return fail("expected 0x + 8 hex digits of data")
    if name == "INT_BOOLEAN":
        dz = d.is_const() and d.value() == 0
        want = "false" if dz else "true"
        if not dz and d.is_const() is False:
            # unconstrained-on-this-path data: must be the 'data != 0' branch
            taken = [o for (txt, o) in path]
            if not taken:
                return fail("boolean decided without testing data")
        if ps == [("lit", want)]:
            return ok("%s" % want)
        return fail("expected %r" % want)
    if name.startswith("INT_COLOR"):
        if len(ps) == 2 and ps[0] == ("lit", "#") and ps[1][0] == "hex" and _nib_eq(ps[1][1], nibbles_of(d), asg):
            return ok("'#' + 8 hex digits")
        return fail("expected # + 8 hex digits of data")
    if name == "INT_DEC":
        exp = Bits.source(list(d.b[0:32]), True)
        if len(ps) == 1 and ps[0][0] == "dec":
            v = ps[0][1]
            v = Bits.const(v) if isinstance(v, int) else v
            if isinstance(v, Bits) and v.subst(asg) == exp:
                return ok("decimal of the two's-complement signed 32-bit value")
        if exp.is_const() and ps == [("lit", str(exp.value()))]:
            return ok("decimal of the (constant on this path) signed 32-bit value")
        return fail("expected the signed 32-bit value %s" % exp.describe())
    if name in ("DIMENSION", "FRACTION"):
        units = DIM_UNITS if name == "DIMENSION" else FRAC_UNITS
        unit = Bits.source(list(d.b[0:4]), False)
        radix = Bits.source(list(d.b[4:6]), False)
        if not (unit.is_const() and radix.is_const()):
            return fail("unit/radix bits not resolved on this path")
        if unit.value() >= len(units):
            return ok("unit %d outside the AOSP table; not constrained" % unit.value())
        mant = Bits.source([0] * 8 + list(d.b[8:32]), True)
        scale = RADIX[radix.value()] * (100.0 if name == "FRACTION" else 1.0)
        if len(ps) == 2 and ps[0][0] == "float" and ps[1] == ("lit", units[unit.value()]):
            bf, const, good = float_factors(ps[0][2], asg)
            if good and bf == mant and math.isclose(const, scale, rel_tol=1e-6):
                return ok("float(signed mantissa bits 8..31) * %.10g + %r" % (scale, units[unit.value()]))
            if good and bf != mant:
                return fail("mantissa is %s; Android takes the signed 24-bit mantissa %s" % (bf.describe() if bf is not None else "?", mant.describe()))
            if good:
                return fail("radix %d multiplier is %.10g, AOSP RADIX_MULTS gives %.10g" % (radix.value(), const, scale))
        return fail("expected float(mantissa)*RADIX_MULTS[%d] and unit %r" % (radix.value(), units[unit.value()]))
    raise AnalysisError("no specification for type %s" % name)


def _nib_eq(got, exp, asg):
    return len(got) == len(exp) and all(isinstance(g, Bits) and g.subst(asg) == e.subst(asg) for g, e in zip(got, exp))


def _check_arsc_getters(ctx, repo, folder, m, hooks):
    cls = m.cls("ARSCParser")
    for gname in ("get_resource_dimen", "get_resource_color"):
        f = cls.lookup(gname)
        ctx.require(f is not None, "ARSCParser.%s vanished" % gname)
        ctx.analysed(f)

        def run(asg, f=f):
            a = dict(asg)

            def method(it, recv, name, args, kwargs, e, func):
                if name == "get_data":
                    return data_bits(it.asg)
                return NotImplemented
            it = Interp(repo, folder, asg=a, hooks=dict(hooks, method=method))
            it.max_split = 8
            out = it.call_function(f, [Sym("ate")], recv=Obj(cls, "self"))
            return a, out

        for asg0, r in explore(run):
            ctx.count("getter_paths")
            inst = "%s data=%s" % (gname, _dwit(asg0)["data_bits_msb_first"])
            if isinstance(r, Raised):
                ctx.check("arsc-getter", inst, False, f, gname, "%s raises %s" % (gname, r), node=r.node)
                continue
            asg, out = r
            d = data_bits(asg)
            good = False
            why = show(out)[:200]
            if isinstance(out, list) and len(out) == 2:
                try:
                    ps = pieces(out[1]) if not isinstance(out[1], Bits) else None
                except FormatError as e:
                    ps = None
                    why = str(e)
                if gname == "get_resource_color" and ps:
                    good = len(ps) == 2 and ps[0] == ("lit", "#") and ps[1][0] == "hex" and _nib_eq(ps[1][1], nibbles_of(d), asg)
                elif gname == "get_resource_dimen":
                    unit = Bits.source(list(d.b[0:4]), False)
                    radix = Bits.source(list(d.b[4:6]), False)
                    if unit.is_const() and unit.value() >= len(DIM_UNITS):
                        good = True  # falls back to the raw data; not constrained
                    elif ps and unit.is_const() and radix.is_const() and len(ps) == 2 and ps[0][0] in ("str", "float") and ps[1] == ("lit", DIM_UNITS[unit.value()]):
                        val = ps[0][1] if ps[0][0] == "str" else ps[0][2]
                        bf, const, okf = float_factors(val, asg)
                        mant = Bits.source([0] * 8 + list(d.b[8:32]), True)
                        good = okf and bf == mant and math.isclose(const, RADIX[radix.value()], rel_tol=1e-6)
                        if okf and bf != mant:
                            why = "mantissa is %s, Android takes the signed mantissa %s" % (bf.describe(), mant.describe())
            if not good and has_opaque(out, allow=("get_value",)):
                raise AnalysisError("%s: the result contains a term the interpreter could not evaluate (%s)" % (gname, show(out)[:200]))
            ctx.check("arsc-getter", inst, good, f, "%s: %s" % (gname, why[:100]), "%s formats the datum wrongly: %s" % (gname, why), witness=_dwit(asg))
    ctx.floor("getter_paths", 20)


MUTATION_TARGETS = [(AXML, "format_value"), (AXML, "complexToFloat"), (AXML, "ARSCParser.get_resource_dimen"), (AXML, "ARSCParser.get_resource_color")]
