"""C13 -- method cross-references are exact and symmetric.

Decided by abstract execution on model DEX files (agstatic/xref_model.py): `Analysis.__init__`, `Analysis.add`,
`Analysis.create_xref` and everything they call are executed by the shared abstract interpreter (nothing of androguard
is imported or run) on small model DEX objects -- classes, methods, fields, aligned reference pools, instructions with
a concrete opcode, a reference index and a symbolic byte offset.  Then every public xref getter of every analysis
object (and the lookup API) is evaluated the same way and the complete state is compared with the state the property
prescribes for the model, computed independently from the Dalvik opcode table (agstatic/spec/dalvik.py).  Only computed
results are judged, so helper methods, generators, dispatch tables, getattr through name tables, equivalent opcode
tests, get-or-create idioms are all the same to the check; a VIOLATION is a positively computed difference (absent /
unexpected record in an exactly evaluated set, wrong number of analysis objects, the analysed code raises); whatever
the interpreter cannot evaluate is an analysis error (exit 2).

Scenarios for C13: F1 one instruction of every opcode (all 256 + payload idents) whose reference index is valid in every
pool -- only the invoke-kind opcodes may produce method xrefs, each produces the caller's get_xref_to() record
(target class, target method, offset), the callee's get_xref_from() record (caller class, caller method, offset) and the
mirrored class-level records with REF_TYPE(op); F2 every invoke opcode on an internal target, a method of the own class,
an external class, a method the internal class does not define (one external stub), and a repeated call (one shared
MethodAnalysis, both offsets); F2a invoke on object-/primitive-array classes; F2s a sequence of invokes that repeats
references (loop-carried state); F6 caller and callee in different DEX files of one analysis, both add orders; F7
get_call_graph() of the F2 model has an edge exactly where a callee is reported.
"""
from __future__ import annotations

from ..model import ANALYSIS
from ..spec import dalvik
from ..xref_model import check_property
from ..xref_engine import (Engine, XrefModel, XrefRules, Collector, Mut, rule_registration, rule_add_method_invariant,
                           rule_resolve, rule_call_graph, rule_ref_type_members, rule_fill_before_xref, Exec, run_mutants,
                           m_swap_args, m_set_arg, m_set_receiver, m_rename_call, m_delete_call, m_const, m_replace_src, m_seq, b_rename_local)

# the thorough tier runs its own in-memory mutation adequacy (MUTANTS / BENIGN below, via xref_engine.run_mutants)
OWN_MUTATION_ADEQUACY = True


def core(sink, eng):
    check_property(sink, eng.repo, "C13")
    sink.floor("scenarios", 4)
    sink.floor("prescribed_records", 300)



CX = "Analysis._create_xref"
MUTANTS = [
    Mut(ANALYSIS, CX, "swap caller/callee method in add_method_xref_to", m_swap_args("add_method_xref_to", 0, 2)),
    Mut(ANALYSIS, CX, "invoke range widened to 0x73", m_const(0x72, 0x73)),
    Mut(ANALYSIS, CX, "invoke/range lower bound 0x75", m_const(0x74, 0x75)),
    Mut(ANALYSIS, CX, "drop add_method_xref_from", m_delete_call("add_method_xref_from")),
    Mut(ANALYSIS, CX, "offset 0 in add_method_xref_to", m_set_arg("add_method_xref_to", 3, "0")),
    Mut(ANALYSIS, CX, "resolve with swapped name/descriptor", m_swap_args("_resolve_method", 1, 2)),
    Mut(ANALYSIS, CX, "self calls excluded", m_replace_src("oth_meth = self._resolve_method(", "if class_info == cur_cls_name:\n    continue\noth_meth = self._resolve_method(")),
    Mut(ANALYSIS, CX, "invoke-super resolved through the caller's parent", m_replace_src(
        "oth_meth = self._resolve_method(", "if op_value in (111, 117):\n    class_info = cur_cls.extends\noth_meth = self._resolve_method(")),
    Mut(ANALYSIS, CX, "callee resolved once per method and reused (stale loop-carried value)", m_seq(
        m_replace_src("for off, instruction in current_method.get_instructions_idx():", "oth_meth = None\nfor off, instruction in current_method.get_instructions_idx():"),
        m_replace_src("oth_meth = self._resolve_method(class_info, method_info[1], method_info[2])",
                      "if oth_meth is None:\n    oth_meth = self._resolve_method(class_info, method_info[1], method_info[2])"))),
    Mut(ANALYSIS, "Analysis._resolve_method", "stub replaces analysed methods in the table", m_replace_src("if m_hash not in self.__method_hashes:", "if True:")),
    Mut(ANALYSIS, "ClassAnalysis.add_xref_to", "xref set replaced instead of added to", m_replace_src("self.xrefto[classobj].add((ref_kind, methodobj, offset))", "self.xrefto[classobj] = {(ref_kind, methodobj, offset)}")),
    Mut(ANALYSIS, "Analysis._resolve_method", "lookup key order", m_replace_src("(class_name, method_name, ''.join(method_descriptor))", "(method_name, class_name, ''.join(method_descriptor))")),
    Mut(ANALYSIS, "Analysis._resolve_method", "stub not stored (not shared)", m_replace_src("self.__method_hashes[m_hash] = meth_analysis", "pass")),
    Mut(ANALYSIS, "Analysis.get_call_graph", "call graph takes the class component", m_replace_src("for callee_class, callee_method, offset in", "for callee_method, callee_class, offset in")),
    Mut(ANALYSIS, "Analysis.get_call_graph", "call graph drops external callees", m_replace_src("if not CG.has_edge(orig_method, callee_method.method):", "if not callee_method.is_external():")),
    Mut(ANALYSIS, "ClassAnalysis.add_method_xref_to", "recorder files the edge as xref_from", m_rename_call("add_xref_to", "add_xref_from")),
    Mut(ANALYSIS, "MethodAnalysis.add_xref_from", "recorder permutes the tuple", m_replace_src("(classobj, methodobj, offset)", "(methodobj, classobj, offset)")),
    Mut(ANALYSIS, "Analysis.add", "add() keys the table by class only twice", m_replace_src("method.get_name(),", "current_class.get_name(),")),
]
BENIGN = [
    Mut(ANALYSIS, CX, "rename oth_meth", b_rename_local("oth_meth", "callee")),
    Mut(ANALYSIS, CX, "rename op_value", b_rename_local("op_value", "opc")),
    Mut(ANALYSIS, CX, "equivalent range test", m_replace_src("110 <= op_value <= 114 or 116 <= op_value <= 120", "op_value in (0x6E, 0x6F, 0x70, 0x71, 0x72, 0x74, 0x75, 0x76, 0x77, 0x78)")),
    Mut(ANALYSIS, CX, "reorder the two method records", m_replace_src(
        "cur_cls.add_method_xref_to(cur_meth, oth_cls, oth_meth, off)\noth_cls.add_method_xref_from(oth_meth, cur_cls, cur_meth, off)",
        "oth_cls.add_method_xref_from(oth_meth, cur_cls, cur_meth, off)\ncur_cls.add_method_xref_to(cur_meth, oth_cls, oth_meth, off)")),
    Mut(ANALYSIS, CX, "inline cur_cls", m_replace_src("cur_cls.add_method_xref_to(", "self.classes[cur_cls_name].add_method_xref_to(")),
    Mut(ANALYSIS, "Analysis._resolve_method", "rename m_hash", b_rename_local("m_hash", "key")),
    Mut(ANALYSIS, CX, "locals pre-initialised before the loop and reset in it", m_seq(
        m_replace_src("for off, instruction in current_method.get_instructions_idx():", "oth_cls = oth_meth = None\nfor off, instruction in current_method.get_instructions_idx():"),
        m_replace_src("op_value = instruction.get_op_value()", "op_value = instruction.get_op_value()\noth_cls = oth_meth = None"))),
]


def run(ctx):
    ctx.explanation = __doc__
    ctx.mod(ANALYSIS)
    eng = Engine(ctx.repo)
    core(ctx, eng)
    # getter; recorder; getter sequences: an instance memo of a record container must be dropped by every recorder (agstatic/memo.py)
    from .. import memo
    for _c in ['MethodAnalysis', 'ClassAnalysis']:
        memo.check_class(ctx, ctx.mod(ANALYSIS), _c)
    ctx.assume("ClassAnalysis._methods[M.get_method()] is M (checked: every store into _methods has the shape d[v.get_method()] = v; "
               "Analysis.add creates one MethodAnalysis per EncodedMethod)")
    ctx.note("not decided: equality of the xref sets with the invoke instructions of concrete DEX files (run-time data); "
             "invoke-polymorphic / invoke-custom are outside the statement's opcode list")
    if ctx.tier == "thorough":
        base = Collector()
        core(base, Engine(ctx.repo))
        run_mutants(ctx, ctx.repo, core, MUTANTS, BENIGN, base.keys())
