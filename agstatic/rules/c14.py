"""C14 -- field cross-references are recorded on the field that is accessed.

Rule (symbolic path execution of `Analysis._create_xref`, recorders inlined to the
primitive `set.add`, see agstatic/xref_engine.py): for every iget*/sget* opcode of the
Dalvik table (resp. iput*/sput*) every path is either excused because the target field is
not defined in the analysed files, or adds (CUR class, CUR method, OFF) to the
get_xref_read() (resp. get_xref_write()) set of the FieldAnalysis that lives in the
ClassAnalysis of the field's *own* class under the key EncodedField-of-the-reference,
and adds (CUR class, that EncodedField, OFF) to the accessing method's get_xref_read/
write set; read opcodes never reach a write record and vice versa; the EncodedField is
looked up with (class_name, name, type) of the instruction's own field reference in the
order the lookup expects; no FieldAnalysis is created outside the declaring class;
`Analysis.add` registers exactly one FieldAnalysis(field) per declared field in
classes[cls.get_name()] and `get_field_analysis(f)` reads
classes[f.get_class_name()]._fields[f]; the target field is resolved among all analysed
DEX files.
"""
from __future__ import annotations

from ..model import ANALYSIS, DEX
from ..xref_engine import (Engine, XrefModel, XrefRules, Collector, Mut, rule_registration, rule_field_lookup, rule_field_resolution,
                           run_mutants, m_swap_args, m_set_arg, m_set_receiver, m_rename_call, m_delete_call, m_const, m_replace_src, b_rename_local)

# the thorough tier runs its own in-memory mutation adequacy (MUTANTS / BENIGN below, via xref_engine.run_mutants)
OWN_MUTATION_ADEQUACY = True


def core(sink, eng):
    xm = XrefModel(eng)
    xr = XrefRules(sink, xm, "C14")
    xr.run(("field",))
    rule_registration(sink, xm, "fields")
    rule_field_lookup(sink, eng)
    rule_field_resolution(sink, xm)
    xr.sites_floor(4)
    sink.floor("facts", 20)


CX = "Analysis._create_xref"
MUTANTS = [
    Mut(ANALYSIS, CX, "iput counted as a read", m_const(0x58, 0x59)),
    Mut(ANALYSIS, CX, "sget-short not a read", m_const(0x66, 0x65)),
    Mut(ANALYSIS, CX, "field range stops before sput-short", m_const(0x6D, 0x6C)),
    Mut(ANALYSIS, CX, "write recorded through add_field_xref_read", m_rename_call("add_field_xref_write", "add_field_xref_read")),
    Mut(ANALYSIS, CX, "method-side write record dropped", m_delete_call("add_xref_write")),
    Mut(ANALYSIS, CX, "field looked up with (class, type, name)", m_swap_args("get_encoded_field_descriptor", 1, 2)),
    Mut(ANALYSIS, CX, "offset of the read is 0", m_set_arg("add_field_xref_read", 3, "0")),
    Mut(ANALYSIS, CX, "caller class and method swapped", m_swap_args("add_field_xref_read", 0, 1)),
    Mut(ANALYSIS, CX, "method-side record keeps the target class", m_set_arg("add_xref_read", 0, "self.classes[field_info[0]]")),
    Mut(ANALYSIS, "ClassAnalysis.add_field_xref_write", "recorder files the write as a read", m_rename_call("add_xref_write", "add_xref_read")),
    Mut(ANALYSIS, "FieldAnalysis.add_xref_read", "recorder permutes the tuple", m_replace_src("(classobj, methodobj, offset)", "(methodobj, classobj, offset)")),
    Mut(ANALYSIS, "Analysis.get_field_analysis", "lookup by the wrong class", m_replace_src("field.get_class_name()", "field.get_name()")),
    Mut(ANALYSIS, "Analysis.add", "FieldAnalysis registered twice per class name", m_replace_src("new_class.add_field(FieldAnalysis(field))", "new_class.add_field(FieldAnalysis(current_class))")),
]
BENIGN = [
    Mut(ANALYSIS, CX, "rename field_item", b_rename_local("field_item", "enc_field")),
    Mut(ANALYSIS, CX, "rename off", b_rename_local("off", "insn_off")),
    Mut(ANALYSIS, CX, "equivalent read test", m_replace_src("82 <= op_value <= 88 or 96 <= op_value <= 102", "op_value in range(0x52, 0x59) or op_value in range(0x60, 0x67)")),
    Mut(ANALYSIS, CX, "reorder the two read records", m_replace_src(
        "self.classes[cur_cls_name].add_field_xref_read(cur_meth, cur_cls, field_item, off)\ncur_meth.add_xref_read(cur_cls, field_item, off)",
        "cur_meth.add_xref_read(cur_cls, field_item, off)\nself.classes[cur_cls_name].add_field_xref_read(cur_meth, cur_cls, field_item, off)")),
    Mut(ANALYSIS, CX, "is-None spelling of the miss test", m_replace_src("if not field_item:", "if field_item is None:")),
]


def run(ctx):
    ctx.explanation = __doc__
    ctx.mod(ANALYSIS)
    ctx.mod(DEX)
    eng = Engine(ctx.repo)
    core(ctx, eng)
    ctx.assume("DEX.get_encoded_field_descriptor(c, n, t) returns an EncodedField whose class name is c (its cache key is class+name+descriptor)")
    ctx.note("not decided: that the xref sets equal the field instructions of concrete DEX files (run-time data)")
    if ctx.tier == "thorough":
        base = Collector()
        core(base, Engine(ctx.repo))
        run_mutants(ctx, ctx.repo, core, MUTANTS, BENIGN, base.keys())
