#!/venv/bin/python
"""Developer tool (never run by a check): append the NEW findings of one property, as reported by the
evidence file of its last run, to known_findings.json after they were triaged by hand.
usage: tools/accept_findings.py CNN "what fails / why it is genuine" ["failing input"] [--rule R]"""
import json, os, subprocess, sys
here = os.path.dirname(os.path.dirname(os.path.abspath(__file__)))
prop, what = sys.argv[1], sys.argv[2]
inp = sys.argv[3] if len(sys.argv) > 3 and not sys.argv[3].startswith("--") else ""
rule = sys.argv[sys.argv.index("--rule") + 1] if "--rule" in sys.argv else None
subprocess.run([os.path.join(here, "check"), prop], capture_output=True)
ev = json.load(open(os.path.join(here, "evidence", prop + ".json")))
p = os.path.join(here, "known_findings.json")
d = json.load(open(p))
n = 0
for f in ev["coverage"]["new_findings"]:
    if rule and f["rule"] != rule:
        continue
    d["findings"].append(dict(property=prop, rule=f["rule"], qualname=f["qualname"], construct=f["construct"], status="known",
                              what=what + " -- " + f["message"][:300], failing_input=inp))
    n += 1
json.dump(d, open(p, "w"), indent=1)
print("accepted", n)
