"""C04 -- encoded constant values keep their declared width and signedness.

Rule: EncodedValue.__init__ is abstractly interpreted for every header byte
(value_type 0..31 x value_arg 0..7) over a stream of symbolic bytes.  For each
type the DEX specification defines, the reported value must be: the
little-endian integer of value_arg+1 bytes sign-extended (BYTE/SHORT/INT/LONG)
or zero-extended (CHAR); the item resolved through the right ClassManager
accessor from the zero-extended index (STRING/TYPE/FIELD/METHOD/ENUM); a nested
EncodedArray/EncodedAnnotation parsed from the same stream; None; or the
boolean held in value_arg -- and exactly the declared bytes must be consumed.
ClassDataItem.set_static_fields must bind value i to static field i, and the
conversion DvClass.get_source applies before printing a field initialiser is
interpreted on the reader's abstract value: what is printed must be the
specified (signed) value.
"""
from __future__ import annotations

import ast

from ..absint import Interp, Sym, StreamV, BufV, BytesV, Obj, Raised, explore, show
from ..bits import Bits
from ..consts import Folder, Unknown
from ..model import DEX, AnalysisError, walk_no_nested

# DEX format, "encoded_value encoding" (source.android.com/docs/core/runtime/dex-format)
# type -> (name, max value_arg, kind)
SPEC = {
    0x00: ("VALUE_BYTE", 0, "sint"),
    0x02: ("VALUE_SHORT", 1, "sint"),
    0x03: ("VALUE_CHAR", 1, "uint"),
    0x04: ("VALUE_INT", 3, "sint"),
    0x06: ("VALUE_LONG", 7, "sint"),
    0x10: ("VALUE_FLOAT", 3, "float"),
    0x11: ("VALUE_DOUBLE", 7, "float"),
    0x15: ("VALUE_METHOD_TYPE", 3, "other"),
    0x16: ("VALUE_METHOD_HANDLE", 3, "other"),
    0x17: ("VALUE_STRING", 3, "string"),
    0x18: ("VALUE_TYPE", 3, "type"),
    0x19: ("VALUE_FIELD", 3, "field"),
    0x1A: ("VALUE_METHOD", 3, "method"),
    0x1B: ("VALUE_ENUM", 3, "field"),
    0x1C: ("VALUE_ARRAY", 0, "array"),
    0x1D: ("VALUE_ANNOTATION", 0, "annotation"),
    0x1E: ("VALUE_NULL", 0, "null"),
    0x1F: ("VALUE_BOOLEAN", 1, "bool"),
}
ACCESSORS = {"string": {"get_raw_string", "get_string"}, "type": {"get_type"}, "field": {"get_field"}, "method": {"get_method"}}
NESTED = {"array": "EncodedArray", "annotation": "EncodedAnnotation"}
# Java field descriptor letter -> encoded value type that initialises it
PROTO_OF = {"B": 0x00, "S": 0x02, "C": 0x03, "I": 0x04, "J": 0x06}


def _spec_int(nbytes, signed, asg):
    bl = []
    for k in range(1, 1 + nbytes):
        for i in range(8):
            key = ("s", k, i)
            bl.append(asg.get(key, key))
    return Bits.source(bl, signed)


def _hooks():
    return {"inline_funcs": {"get_byte", "get_sbyte"}}


def run(ctx):
    ctx.explanation = __doc__
    repo = ctx.repo
    m = ctx.mod(DEX)
    folder = Folder(repo)
    cls = m.cls("EncodedValue")
    init = cls.lookup("__init__")
    ctx.require(init is not None, "EncodedValue.__init__ vanished")
    ctx.analysed(init)
    gi = cls.lookup("_getintvalue")
    if gi is not None:
        ctx.analysed(gi)
    # the repository's VALUE_* constants must be the specification's numbers
    for t, (name, _, _) in SPEC.items():
        if name in ("VALUE_METHOD_TYPE", "VALUE_METHOD_HANDLE"):
            continue
        v = folder.global_(m, name)
        ctx.check("constants", name, not isinstance(v, Unknown) and v == t, "module", "%s = %s" % (name, v if not isinstance(v, Unknown) else "?"),
                  "%s is 0x%02x in the DEX specification, the module says %r" % (name, t, v), file=m.relpath)

    reader_values = {}
    for t, (name, maxarg, kind) in sorted(SPEC.items()):
        if kind in ("float", "other"):
            continue
        for arg in range(maxarg + 1):
            ctx.count("headers")
            _check_header(ctx, repo, folder, m, cls, init, t, name, arg, kind, reader_values)
    ctx.floor("headers", 32)
    ctx.note("VALUE_FLOAT/VALUE_DOUBLE (source says TODO; the statement does not list them) and VALUE_METHOD_TYPE/VALUE_METHOD_HANDLE are not decided")

    get_value = cls.lookup("get_value")
    ctx.require(get_value is not None, "EncodedValue.get_value vanished")
    ok = any(isinstance(n, ast.Return) and n.value is not None and ast.unparse(n.value) == "self.value" for n in ast.walk(get_value.node))
    ctx.check("getter", "EncodedValue.get_value returns self.value", ok, get_value, "EncodedValue.get_value", "get_value() no longer returns the decoded value")

    _check_binding(ctx, m)
    _check_printing(ctx, repo, folder, reader_values)


def _check_header(ctx, repo, folder, m, cls, init, t, name, arg, kind, reader_values):
    hdr = (arg << 5) | t
    nbytes = arg + 1

    def run(asg):
        a = dict(asg)
        for i in range(8):
            a[("s", 0, i)] = (hdr >> i) & 1
        it = Interp(repo, folder, asg=a, hooks=_hooks())
        it.max_split = 4
        st = StreamV("buff")
        o = it.new_obj(cls)
        it.call_function(init, [st, Sym("cm")], recv=o)
        return a, o, st

    inst = "%s value_arg=%d" % (name, arg)
    res = explore(run)
    for asg0, r in res:
        if isinstance(r, Raised):
            ctx.check("accepts", inst, False, init, inst, "EncodedValue raises %s for header 0x%02x (%s)" % (r, hdr, inst), node=r.node)
            continue
        asg, o, st = r
        val = o.attrs.get("value")
        if kind in ("sint", "uint"):
            exp = _spec_int(nbytes, kind == "sint", asg)
            got = Bits.const(val) if isinstance(val, int) and not isinstance(val, bool) else val
            ok = isinstance(got, Bits) and got.subst(asg) == exp
            ctx.check("int-value", inst, ok, init, "%s/%d byte(s): %s" % (name, nbytes, show(got)[:120]),
                      "%s with %d byte(s) is reported as %s; the DEX specification says %s (%s-extended)" % (
                          name, nbytes, show(got)[:200], exp.describe(), "sign" if kind == "sint" else "zero"),
                      detail="= %s" % exp.describe())
            ctx.check("consumed", inst, st.pos == 1 + nbytes, init, "%s size" % name,
                      "%s with value_arg=%d consumes %s bytes after the header, expected %d" % (name, arg, st.pos - 1 if isinstance(st.pos, int) else st.pos, nbytes))
            reader_values[(t, arg)] = (got, exp, asg)
        elif kind in ACCESSORS:
            exp = _spec_int(nbytes, False, asg)
            ok = False
            why = show(val)[:200]
            if isinstance(val, Sym) and val.op == "call" and val.args and isinstance(val.args[0], Sym) and val.args[0].op == "attr":
                recv, meth = val.args[0].args[0], val.args[0].args[1]
                idx = val.args[1] if len(val.args) > 1 else None
                idxb = Bits.const(idx) if isinstance(idx, int) else idx
                ok = (recv == Sym("cm") and meth in ACCESSORS[kind] and isinstance(idxb, Bits) and idxb.subst(asg) == exp)
            ctx.check("ref-value", inst, ok, init, name,
                      "%s must resolve index %s through cm.%s; got %s" % (name, exp.describe(), "/".join(sorted(ACCESSORS[kind])), why),
                      detail="cm.%s(%s)" % ("/".join(sorted(ACCESSORS[kind])), exp.describe()))
            ctx.check("consumed", inst, st.pos == 1 + nbytes, init, "%s size" % name,
                      "%s with value_arg=%d consumes %s bytes after the header, expected %d" % (name, arg, st.pos, nbytes))
        elif kind in NESTED:
            ok = isinstance(val, Sym) and val.op == "new" and val.args[0] == NESTED[kind] and len(val.args) >= 3 and isinstance(val.args[1], StreamV) and val.args[2] == Sym("cm")
            ctx.check("nested-value", inst, ok, init, name, "%s must be parsed as %s(buff, cm) from the same stream; got %s" % (name, NESTED[kind], show(val)[:120]))
        elif kind == "null":
            ctx.check("null-value", inst, val is None and st.pos == 1, init, name, "VALUE_NULL must be None and consume no bytes; got %s" % show(val))
        elif kind == "bool":
            ctx.check("bool-value", inst, val is bool(arg) and st.pos == 1, init, name,
                      "VALUE_BOOLEAN with value_arg=%d must be %s and consume no bytes; got %s" % (arg, bool(arg), show(val)))


def _check_binding(ctx, m):
    cdi = m.cls("ClassDataItem")
    f = cdi.lookup("set_static_fields")
    ctx.require(f is not None, "ClassDataItem.set_static_fields vanished")
    ctx.analysed(f)
    calls = [n for n in walk_no_nested(f.node) if isinstance(n, ast.Call) and isinstance(n.func, ast.Attribute) and n.func.attr == "set_init_value"]
    ctx.require(len(calls) >= 1, "set_static_fields no longer calls set_init_value (shape not understood)")
    # names bound to value.get_values()
    vals_names = set()
    param = f.params()[1] if len(f.params()) > 1 else None
    for n in walk_no_nested(f.node):
        if isinstance(n, ast.Assign) and isinstance(n.value, ast.Call) and isinstance(n.value.func, ast.Attribute) and n.value.func.attr == "get_values":
            if isinstance(n.value.func.value, ast.Name) and n.value.func.value.id == param:
                for t in n.targets:
                    if isinstance(t, ast.Name):
                        vals_names.add(t.id)
    for c in calls:
        recv, arg = c.func.value, c.args[0] if c.args else None
        ok = False
        understood = False
        if isinstance(recv, ast.Subscript) and isinstance(arg, ast.Subscript):
            understood = True
            ok = (ast.unparse(recv.value) == "self.static_fields" and isinstance(arg.value, ast.Name) and arg.value.id in vals_names
                  and ast.unparse(recv.slice) == ast.unparse(arg.slice) and isinstance(recv.slice, ast.Name))
        elif isinstance(recv, ast.Name) and isinstance(arg, ast.Name):
            # for f, v in zip(self.static_fields, values)
            p = c
            from ..model import parent
            while p is not None and not isinstance(p, ast.For):
                p = parent(p)
            if p is not None and isinstance(p.iter, ast.Call) and ast.unparse(p.iter.func) == "zip" and isinstance(p.target, ast.Tuple) and len(p.target.elts) == 2:
                understood = True
                a0, a1 = p.iter.args[:2]
                t0, t1 = [ast.unparse(x) for x in p.target.elts]
                ok = ast.unparse(a0) == "self.static_fields" and isinstance(a1, ast.Name) and a1.id in vals_names and recv.id == t0 and arg.id == t1
        if not understood:
            raise AnalysisError("%s: binding of static values to fields has a shape the rule does not understand: %s" % (f.loc(c), ast.unparse(c)))
        ctx.check("binding", "static value i -> static field i", ok, f, c,
                  "static value and static field are not bound index by index: %s" % ast.unparse(c), node=c,
                  detail="self.static_fields[i].set_init_value(values[i])")
    ctx.count("bindings", len(calls))
    ctx.floor("bindings", 1)


def _mentions(term, v):
    if term is v:
        return True
    if isinstance(term, Bits) and isinstance(v, Bits):
        return bool(set(term.sources()) & set(v.sources()))
    if isinstance(term, Sym):
        return any(_mentions(a, v) for a in term.args)
    if isinstance(term, (tuple, list)):
        return any(_mentions(a, v) for a in term)
    return False


def _check_printing(ctx, repo, folder, reader_values):
    dm = ctx.mod("androguard/decompiler/decompile.py")
    f = dm.cls("DvClass").lookup("get_source")
    ctx.require(f is not None, "DvClass.get_source vanished")
    ctx.analysed(f)
    # the loop over the fields: the `for` whose body reads <loopvar>.get_init_value()
    loop = None
    for n in ast.walk(f.node):
        if isinstance(n, ast.For) and isinstance(n.target, ast.Name):
            for c in ast.walk(n):
                if isinstance(c, ast.Call) and isinstance(c.func, ast.Attribute) and c.func.attr == "get_init_value" \
                        and isinstance(c.func.value, ast.Name) and c.func.value.id == n.target.id:
                    loop = n
    ctx.require(loop is not None, "DvClass.get_source: the loop printing field initialisers was not found")
    fieldvar = loop.target.id
    JAVA = {"B": "byte", "S": "short", "C": "char", "I": "int", "J": "long"}
    for letter, t in PROTO_OF.items():
        maxarg = SPEC[t][1]
        for arg in range(maxarg + 1):
            if (t, arg) not in reader_values:
                continue
            got, exp, asg = reader_values[(t, arg)]
            if not isinstance(got, Bits):
                continue
            inst = "print %s field from %s value_arg=%d" % (JAVA[letter], SPEC[t][0], arg)

            def runp(extra, got=got, letter=letter, asg=asg, arg=arg):
                a = {**asg, **extra}
                captured = []
                iv = Obj(None, "init_value")
                iv.attrs["value"] = got
                fld = Obj(None, "field")
                fld.attrs["proto"] = letter
                fld.attrs["init_value"] = iv

                def method(it, recv, name, args, kwargs, e, func):
                    if recv is fld:
                        if name == "get_init_value":
                            return iv
                        if name == "get_descriptor":
                            return letter
                        return Sym("field." + name)
                    if recv is iv and name in ("get_value",):
                        return got
                    if name == "get_type" and args and args[0] == letter:
                        return JAVA[letter]
                    if name in ("append", "write", "extend") and not isinstance(recv, list) and args:
                        captured.append(args[0])
                        return None
                    return NotImplemented

                helpers = {q for q, fn in dm.functions.items() if "." not in q}
                it = Interp(repo, folder, asg=a, hooks={"method": method, "inline_funcs": helpers})
                it.max_split = 8 if arg == 0 else 4
                env = {fieldvar: fld, "__func__": f}
                try:
                    it.exec_block(loop.body, env, f)
                except Exception as ex:
                    if type(ex).__name__ in ("_Break", "_Continue"):
                        pass
                    else:
                        raise
                return a, captured

            res = explore(runp)
            for a0, r in res:
                if isinstance(r, Raised):
                    ctx.check("printed", inst, False, f, "print %s raises %s" % (SPEC[t][0], r.exc),
                              "printing a %s initialiser raises %s for some stored values" % (JAVA[letter], r), node=r.node)
                    continue
                a, out = r
                printed = None
                for piece in out:
                    if isinstance(piece, Sym) and piece.op == "strformat":
                        args = piece.args[1] if isinstance(piece.args[1], tuple) else (piece.args[1],)
                        for x in args:
                            y = x.args[0] if isinstance(x, Sym) and x.op in ("hex", "str") and x.args else x
                            if isinstance(y, Bits) or (isinstance(y, int) and not isinstance(y, bool)):
                                printed = x
                ok = False
                pv = printed
                if isinstance(pv, Sym) and pv.op in ("hex", "str") and pv.args:
                    pv = pv.args[0]
                if isinstance(pv, int) and not isinstance(pv, bool):
                    pv = Bits.const(pv)
                if isinstance(pv, Bits):
                    ok = pv.subst(a) == exp.subst(a)
                if printed is None:
                    # nothing numeric recognised: fine only if the stored value does not reach any formatted piece at all
                    # (e.g. the initialiser branch is skipped); an opaque term that carries it is outside the fragment
                    for piece in out:
                        if _mentions(piece, got):
                            raise AnalysisError("%s: the initialiser value reaches the output through a term the rule cannot evaluate: %s" % (
                                f.qualname, show(piece)[:200]))
                    continue
                ctx.count("printed_paths")
                ctx.check("printed", inst, ok, f, "print %s/%d byte(s): %s" % (SPEC[t][0], arg + 1, show(printed)[:120]),
                          "the %s initialiser is printed from %s; the value the DEX file defines is %s" % (JAVA[letter], show(printed)[:160], exp.describe()),
                          detail="prints %s" % exp.describe())
            ctx.count("print_cases")
    ctx.floor("print_cases", 10)
    ctx.floor("printed_paths", 10)


MUTATION_TARGETS = [(DEX, "EncodedValue.__init__"), (DEX, "EncodedValue._getintvalue"), (DEX, "EncodedValue.get_value"),
                    (DEX, "ClassDataItem.set_static_fields"), ("androguard/decompiler/decompile.py", "DvClass.get_source")]
