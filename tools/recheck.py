#!/venv/bin/python
"""Developer tool: run ONE property's check against every kept patch (seeded/*/patch.diff = breaking, benign/*/patch.diff =
behaviour-preserving), each applied to a scratch copy of /repo/androguard.  Prints rc per patch and a summary:
 benign patches must give rc 0 (rc 2 = undecided is tolerated but listed, rc 1 = FALSE ALARM);
 seeded patches of this property (or that this property caught before) should give rc 1.
usage: tools/recheck.py CNN [-j N] [--only benign|seeded]"""
import concurrent.futures as cf, glob, json, os, shutil, subprocess, sys, tempfile
prop = sys.argv[1]
only = sys.argv[sys.argv.index("--only") + 1] if "--only" in sys.argv else None
jobs = int(sys.argv[sys.argv.index("-j") + 1]) if "-j" in sys.argv else 8
V = "/verif"


def one(path):
    kind = "seeded" if "/seeded/" in path else "benign"
    name = os.path.basename(os.path.dirname(path))
    tmp = tempfile.mkdtemp(prefix="rechk_")
    try:
        shutil.copytree("/repo/androguard", os.path.join(tmp, "androguard"), ignore=shutil.ignore_patterns("__pycache__"))
        p = subprocess.run(["patch", "-p1", "-s", "-i", path], cwd=tmp, capture_output=True, text=True)
        if p.returncode != 0:
            return kind, name, None, "patch does not apply"
        r = subprocess.run([os.path.join(V, "check"), prop, "--repo", tmp, "--evidence-dir", os.path.join(tmp, "ev")], capture_output=True, text=True, cwd=V)
        lines = [l[:300] for l in (r.stdout + r.stderr).splitlines() if l.startswith(("FINDING", "ANALYSIS-ERROR"))][:2]
        return kind, name, r.returncode, " | ".join(lines)
    finally:
        shutil.rmtree(tmp, ignore_errors=True)


paths = []
if only in (None, "seeded"):
    paths += sorted(glob.glob(V + "/seeded/*/patch.diff"))
if only in (None, "benign"):
    paths += sorted(glob.glob(V + "/benign/*/patch.diff"))
fa, und, miss = [], [], []
with cf.ThreadPoolExecutor(jobs) as ex:
    for kind, name, rc, info in ex.map(one, paths):
        mine = name.startswith(prop + "_")
        if kind == "seeded":
            meta = json.load(open(V + "/seeded/%s/meta.json" % name))
            expected = mine or prop in (meta.get("caught_by") or [])
            flag = ""
            if expected and rc != 1:
                flag = "  <-- expected rc 1"
                miss.append(name)
            if not expected and rc == 1:
                flag = "  (also fires here)"
            if expected or rc not in (0,):
                print("seeded %-8s rc=%s%s %s" % (name, rc, flag, info if rc != 0 else ""))
        else:
            if rc == 1:
                fa.append(name)
                print("benign %-8s rc=1  <-- FALSE ALARM %s" % (name, info))
            elif rc == 2:
                und.append(name)
                print("benign %-8s rc=2  (undecided) %s" % (name, info))
print("SUMMARY %s: false alarms on benign=%s undecided=%s missed seeds=%s" % (prop, fa, und, miss))
