"""Positive and negative examples for the termination certificates of C35.
Parsed by the checker on every run: the *_bad functions must be reported, the *_ok ones certified."""
from struct import unpack


def while_bad(f):
    out = []
    while True:
        z = f.read(16)  # bare read: b'' at EOF, forever
        if 0 in z:
            break
        out.append(z)
    return out


def while_ok(f):
    out = []
    while True:
        (n,) = unpack('<I', f.read(4))  # raises struct.error at EOF
        if n == 0:
            break
        out.append(n)
    return out


def while_eof_exit_ok(f):
    out = []
    while True:
        z = f.read(16)
        if not z:
            break
        out.append(z)
    return out


def seek_back_bad(f):
    while f.tell() < 100:
        start = f.tell()
        (n,) = unpack('<I', f.read(4))
        f.seek(start + n)  # n may be 0: the same header again


def counted_bad(f):
    (n,) = unpack('<I', f.read(4))
    return [f.read(1) for _ in range(n)]  # 2**32 iterations on a 4 byte file


def counted_ok(f):
    (n,) = unpack('<I', f.read(4))
    return [unpack('<B', f.read(1))[0] for _ in range(n)]


def counter_bad(n):
    i = 0
    while i < n:
        if n % 2:
            i += 1


def counter_ok(n):
    i = 0
    while i < n:
        i += 2 if n % 2 else 1


def rec_bad(f, depth=0):
    if depth == -1:
        return depth
    return rec_bad(f, depth + 1)


def rec_ok(f):
    (t,) = unpack('<B', f.read(1))
    if t:
        return [rec_ok(f)]
    return []
