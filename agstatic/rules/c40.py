"""C40 -- disassembly and analysis agree on instruction offsets.

(1) provenance (symbolic path execution, agstatic/xref_engine.py): the offset component of every xref record made by
`_create_xref` (15 recording sites, recorders inlined to the primitive `set.add`) is the first loop variable of
current_method.get_instructions_idx(); `_create_basic_block` passes the (instruction, offset) pair of one step of that
generator to determineNext.
(2)-(4) disassembler side (agstatic/offset_model.py): the functions are *executed abstractly* by the shared interpreter
on a model -- three instructions of symbolic byte lengths (>= 2), symbolic instruction offset C, branch offset R, switch
targets T -- and judged by the values they compute, never by the shape of their code (helpers, generators, comprehensions,
lookup tables are simply executed):  DCode.off_to_pos / get_ins_off return position k / instruction k exactly at the
prefix sums of get_length() and -1 / None for an address inside an instruction, behind the end or negative;
get_instructions_idx yields (prefix sum, instruction); DEXBasicBlock.get_instructions selects by the same offsets; push
advances the block end by the pushed length.  Payload: for every opcode, the address handed to
method.get_code().get_bc().get_ins_off() in DEXBasicBlock.push and determineNext is exactly C + 2*R, the link is stored
under C, every returned offset / address has coefficient 2 on code-unit values and 1 on byte values, and get_targets()
is never reached when the address holds None or an instruction that is not a PackedSwitch/SparseSwitch.  End to end:
after MethodAnalysis._create_basic_block on a model method [fill-array-data, fill-array-data, payload, return-void]
whose two fill-array-data instructions encode the same payload offset, get_special_ins() of both is that payload.
A VIOLATION is only reported for a positively computed value that differs from the specification; what the interpreter
cannot evaluate is an analysis error (exit 2).
"""
from __future__ import annotations

from ..model import ANALYSIS, DEX
from ..model import AnalysisError
from ..xref_model import check_property
from ..offset_model import rule_offset_functions, rule_payload_model, rule_payload_links_model
from ..xref_engine import (Engine, XrefModel, Collector, Mut, rule_fact_offsets, rule_basic_block_offsets,
                           run_mutants, m_swap_args, m_set_arg, m_set_receiver, m_rename_call, m_delete_call, m_const, m_replace_src, b_rename_local)

# the thorough tier runs its own in-memory mutation adequacy (MUTANTS / BENIGN below, via xref_engine.run_mutants)
OWN_MUTATION_ADEQUACY = True


def core(sink, eng):
    # provenance: the offset component of every xref record is the offset get_instructions_idx() reports (model execution)
    check_property(sink, eng.repo, "C40")
    sink.floor("prescribed_records", 400)
    # disassembler side: executed abstractly on a model (values are judged, not loop shapes)
    rule_offset_functions(sink, eng.repo)
    deferred = rule_payload_model(sink, eng.repo)
    # end to end: two fill-array-data instructions sharing one payload are both linked to it after _create_basic_block
    try:
        rule_payload_links_model(sink, eng.repo)
    except AnalysisError as e:
        if deferred:
            raise AnalysisError("%s; and the end-to-end model could not be evaluated: %s" % (deferred, e))
        sink.note("end-to-end payload link model not evaluable on this tree (%s); the per-function clauses decide" % str(e)[:200])
    rule_basic_block_offsets(sink, eng)


CX = "Analysis._create_xref"
MUTANTS = [
    Mut(ANALYSIS, CX, "string xref offset in code units", m_replace_src("self.strings[string_value].add_xref_from(cur_cls, cur_meth, off)", "self.strings[string_value].add_xref_from(cur_cls, cur_meth, off // 2)")),
    Mut(ANALYSIS, CX, "invoke xref offset is the method index", m_set_arg("add_method_xref_to", 3, "idx_meth")),
    Mut(ANALYSIS, CX, "field xref offset after the instruction", m_set_arg("add_xref_read", 2, "off + instruction.get_length()")),
    Mut(DEX, "EncodedMethod.get_instructions_idx", "offset yielded after the increment", m_replace_src("yield (idx, ins)\nidx += ins.get_length()", "idx += ins.get_length()\nyield (idx, ins)")),
    Mut(DEX, "EncodedMethod.get_instructions_idx", "offset counted in instructions", m_replace_src("idx += ins.get_length()", "idx += 1")),
    Mut(DEX, "DCode.get_ins_off", "lookup compares the end offset", m_replace_src("if idx == off:\nreturn i\nidx += i.get_length()", "idx += i.get_length()\nif idx == off:\n    return i")),
    Mut(DEX, "DCode.off_to_pos", "positions counted from offset 2", m_replace_src("idx = 0", "idx = 2")),
    Mut(ANALYSIS, "DEXBasicBlock.get_instructions", "block instructions by code units", m_replace_src("idx += i.get_length()", "idx += i.get_length() // 2")),
    Mut(ANALYSIS, "DEXBasicBlock.push", "payload offset not doubled", m_replace_src("idx + i.get_ref_off() * 2", "idx + i.get_ref_off()")),
    Mut(ANALYSIS, "DEXBasicBlock.push", "payload relative to the block end", m_replace_src("code.get_ins_off(idx + ", "code.get_ins_off(self.end + ")),
    Mut(ANALYSIS, "DEXBasicBlock.push", "fill-array-data payload not linked", m_replace_src("op_value == 38 or 43 <= op_value <= 44", "43 <= op_value <= 44")),
    Mut(ANALYSIS, "DEXBasicBlock.push", "link stored under the next offset", m_replace_src("self.special_ins[idx]", "self.special_ins[self.end]")),
    Mut(DEX, "determineNext", "switch targets not doubled", m_replace_src("target * 2 + cur_idx", "target + cur_idx")),
    Mut(DEX, "determineNext", "goto offset doubled twice", m_replace_src("return [off + cur_idx]", "return [off * 2 + cur_idx]")),
    Mut(DEX, "determineNext", "payload type check removed", m_replace_src("if data and (isinstance(data, PackedSwitch) or isinstance(data, SparseSwitch)):", "if data:")),
    Mut(ANALYSIS, "MethodAnalysis._create_basic_block", "determineNext gets the block end", m_replace_src("dex.determineNext(ins, idx, self.method)", "dex.determineNext(ins, current_basic.get_end(), self.method)")),
]
BENIGN = [
    Mut(ANALYSIS, CX, "rename off", b_rename_local("off", "insn_off")),
    Mut(DEX, "EncodedMethod.get_instructions_idx", "rename idx", b_rename_local("idx", "pos")),
    Mut(ANALYSIS, "DEXBasicBlock.push", "commuted address", m_replace_src("idx + i.get_ref_off() * 2", "2 * i.get_ref_off() + idx")),
    Mut(ANALYSIS, "DEXBasicBlock.push", "shift instead of multiply", m_replace_src("idx + i.get_ref_off() * 2", "idx + (i.get_ref_off() << 1)")),
    Mut(DEX, "determineNext", "if targets without the temporary", m_replace_src("off = i.get_ref_off() * 2\nreturn [cur_idx + i.get_length(), off + cur_idx]", "return [cur_idx + i.get_length(), cur_idx + 2 * i.get_ref_off()]")),
    Mut(DEX, "determineNext", "single isinstance with a tuple", m_replace_src("isinstance(data, PackedSwitch) or isinstance(data, SparseSwitch)", "isinstance(data, (PackedSwitch, SparseSwitch))")),
    Mut(DEX, "DCode.get_ins_off", "rename idx", b_rename_local("idx", "cur")),
]


def run(ctx):
    ctx.explanation = __doc__
    ctx.mod(ANALYSIS)
    ctx.mod(DEX)
    eng = Engine(ctx.repo)
    core(ctx, eng)
    ctx.assume("Instruction.get_length() is the length in bytes the linear sweep advanced by (C01/C02); get_ref_off()/get_targets() are in 16-bit code units (Dalvik specification)")
    ctx.note("not decided here: which successor offsets determineNext returns per opcode (C11); that get_ins_off finds an instruction at "
             "the computed address for concrete methods")
    if ctx.tier == "thorough":
        base = Collector()
        core(base, Engine(ctx.repo))
        run_mutants(ctx, ctx.repo, core, MUTANTS, BENIGN, base.keys())
        _widen(ctx)


def _widen(ctx):
    """thorough: every other consumer of get_ref_off() in the package doubles it exactly once when it is added to something"""
    import ast
    n = 0
    for rel, m in sorted(ctx.repo.modules.items()):
        for node in ast.walk(m.tree):
            if isinstance(node, ast.Call) and isinstance(node.func, ast.Attribute) and node.func.attr == "get_ref_off" and not node.args:
                top = node
                while isinstance(getattr(top, "_parent", None), (ast.BinOp, ast.UnaryOp)):
                    top = top._parent
                if top is node:
                    continue  # stored / passed on as a raw code-unit value
                coef = _coef(top, node)
                n += 1
                ctx.mod(rel)
                fn = top
                while fn is not None and not isinstance(fn, (ast.FunctionDef, ast.AsyncFunctionDef)):
                    fn = getattr(fn, "_parent", None)
                qn = fn.name if fn is not None else "<module>"
                ctx.ob("units", "%s:%s `%s`" % (rel, qn, ast.unparse(top)), coef == 2, "coefficient of get_ref_off() = %s" % coef)
    ctx.count("ref_off_arithmetic_sites", n)
    ctx.floor("ref_off_arithmetic_sites", 4)


def _coef(e, target):
    """coefficient of `target` in the arithmetic expression e (None if not affine)"""
    import ast
    if e is target:
        return 1
    if isinstance(e, ast.BinOp):
        l, r = _coef(e.left, target), _coef(e.right, target)
        if isinstance(e.op, ast.Add):
            return (l or 0) + (r or 0) if (l is not None or r is not None) else None
        if isinstance(e.op, ast.Sub):
            return (l or 0) - (r or 0) if (l is not None or r is not None) else None
        if isinstance(e.op, ast.Mult):
            if l is not None and isinstance(e.right, ast.Constant) and isinstance(e.right.value, int):
                return l * e.right.value
            if r is not None and isinstance(e.left, ast.Constant) and isinstance(e.left.value, int):
                return r * e.left.value
            return None
        if isinstance(e.op, ast.LShift) and l is not None and isinstance(e.right, ast.Constant):
            return l * (1 << e.right.value)
        return None
    if isinstance(e, ast.UnaryOp) and isinstance(e.op, ast.USub):
        c = _coef(e.operand, target)
        return -c if c is not None else None
    return None
